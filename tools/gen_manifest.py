#!/usr/bin/env python3
"""Regenerates /verif/MANIFEST.json from the table below (kept next to the checks so the
manifest cannot drift from what `./check` implements)."""
import json
import os

HERE = os.path.dirname(os.path.dirname(os.path.abspath(__file__)))

TRUST = (
    "Trusted: the pyvc VC generator and its Py value encoding (DESIGN 3), the assumed library contracts in pyvc/lib.py "
    "(cross-checked against CPython on every run), the RFC transcriptions in specs/, z3. Integers are mathematical (exact for Python), "
    "floats are reals without inf/nan; documents are json.loads-shaped trees. "
)

TECH = "contract-based deductive verification: VCs generated from the real source (ast -> z3 symbolic execution, code path x spec path equivalence against sidecar spec functions), discharged by z3; "

CLAIMED = {
    "C01": dict(
        category="proof",
        text="Every selector/segment resolve body is proved equal, for all documents and all selector parameters, to the RFC 9535 node-level spec "
        "(name, index incl. the documented object departure, slice for all start/stop/step, wildcard, descendant by modular recursion, bracketed lists, filter selector skeleton). "
        "The surface-syntax clause (lexer+parser produce the right selector tuple in every spelling) is a bounded stand-in (monitors/c01.py), labelled bounded in evidence.",
        ref="5/C01",
        technique=TECH + "bounded enumeration of query ASTs x renderings x documents for the lexer/parser",
        note=TRUST + "Dynamic dispatch inside ListSelector uses the abstract resolve contract; canonical_string is uninterpreted (its string law is bounded, C03).",
    ),
    "C02": dict(
        category="proof",
        text="compare/_eq/_lt/is_truthy are proved equal to the RFC 9535 comparison table for all operand pairs; every filter node (infix, prefix, boolean, embedded @/$ queries, "
        "function call + the five standard functions, Filter.resolve) is proved against its RFC semantics with children abstract (structural induction). "
        "Two recorded findings are carved out of the preconditions (deep bool/number equality; `$` inside nested filters). Operator precedence/grouping of the Pratt parser is bounded (monitors/c02.py).",
        ref="5/C02",
        technique=TECH + "modular call contracts (compare, is_truthy, finditer), structural induction over expression nodes; bounded expression-tree enumeration for the parser",
        note=TRUST + "Well-typedness of the query (C07) is a precondition of the node contracts; re is opaque (uninterpreted match predicates); deep == on containers is uninterpreted with one-step unfolding.",
    ),
    "C03": dict(
        category="proof",
        text="The child(m,k,v) postcondition proved for every selector (C01 contracts) fixes path, parts, root and parent of each produced match; JSONPointer.from_match is proved to reuse the parts without re-parsing and "
        "_getitem/_index to resolve exact-typed parts. The string-level clauses (normalized-path syntax, canonical_string escape, path re-query by identity, pointer text re-parse) are bounded (monitors/c03.py).",
        ref="5/C03",
        technique=TECH + "bounded re-query / re-parse of every match of the query universe",
        note=TRUST + "canonical_string and the pointer text encoder/decoder are uninterpreted in the proofs.",
    ),
    "C04": dict(
        category="proof",
        text="_index (canonical-decimal tokens only), _getitem (complete RFC 6901 section 4 case table incl. strings/scalars, '-', out-of-range, non-canonical), resolve/exists/resolve_parent (fold rule) are proved against specs/rfc6901.py. "
        "The parse/unescape string law is bounded (monitors/c04.py: every location of the document universe + one-token mutations).",
        ref="5/C04",
        technique=TECH + "regex-language membership for token classes, fold rule for reduce; bounded enumeration for the text parser",
        note=TRUST + "'#'/'~'-prefixed tokens and leading blanks are outside the clause (as in the statement); list lengths are below 2**53.",
    ),
    "C05": dict(
        category="proof",
        text="Each operation's apply is proved equal to RFC 6902 section 4 on the container that holds the target (mutable-box heap model, resolve_parent through its proved contract), per token class; "
        "move/copy for source and destination in one array. Two recorded findings are carved out (test uses Python ==; negative indices accepted). "
        "The lifting to whole documents, objects in move/copy, and operation sequences are bounded (monitors/c05.py against a functional reference).",
        ref="5/C05",
        technique=TECH + "mutable-box heap model with write-back, modular resolve_parent contract; bounded differential check against a functional RFC 6902 reference",
        note=TRUST + "Lifting assumption: mutating the parent container of a tree-shaped document is the whole-document update (validated bounded). Integer-looking *string* tokens are verified only in the thorough tier.",
    ),
    "C08": dict(
        category="proof",
        text="Relational obligations: each resolve_async / evaluate_async body is proved to produce the same yield sequence / value / exception as its sync twin on the same symbolic input (8 selectors, filter nodes, embedded queries, function calls). "
        "Entry points, compound queries, async item getters and concurrent awaits are cross-checked bounded (monitors/c08.py).",
        ref="5/C08",
        technique=TECH + "relational (product) equivalence of sync/async twins; bounded differential run on one event loop",
        note=TRUST + "await e is e's synchronous contract (DESIGN 3.6); getitem_async is assumed to return what getitem returns (the statement's hypothesis). Scheduler interleavings are not explored.",
    ),
    "C12": dict(
        category="proof",
        text="Every Query operation is proved equal to its list-slicing spec on the abstract view of the remaining matches (limit/head/first, skip/drop, tail/last, take, tee, first_one/one/last_one, values/locations/items); chains follow by composition. "
        "Consumption-order independence of take/tee (laziness) and all chains of length <= 3 are checked bounded (monitors/c12.py).",
        ref="5/C12",
        technique=TECH + "data-structure-against-abstract-view contracts over an itertools library model; bounded exhaustive chains",
        note=TRUST + "itertools.islice is modelled eagerly (equal to the lazy one only under iterator ownership); the bounded part covers the lazy orders.",
    ),
}

NOT_YET = {}

TITLES = {}
with open(os.path.join(HERE, "properties.jsonl"), encoding="utf-8") as fd:
    for line in fd:
        p = json.loads(line)
        TITLES[p["id"]] = p["title"]

checks = []
for pid in sorted(CLAIMED):
    c = CLAIMED[pid]
    checks.append(
        {
            "property_id": pid,
            "quick_cmd": f"./check {pid} --tier quick",
            "thorough_cmd": f"./check {pid} --tier thorough",
            "evidence_file": f"/verif/evidence/{pid}.json",
            "replay_cmd_template": "/venv/bin/python {path}",
            "engine": "pyvc",
            "level_claimed": {"category": c["category"], "text": c["text"], "design_ref": c["ref"]},
            "level_note": c["note"],
            "technique": c["technique"],
        }
    )

manifest = {
    "version": 1,
    "setup_cmd": "./setup.sh",
    "hooks": {
        "guard": "JSONPATH_VERIF",
        "enable": "no hook or instrumentation in /repo: the checks re-read the source with ast and wrap the real functions from sidecar modules",
        "baseline_off_cmd": "cd /repo && /venv/bin/python -m pytest -ra -q -p no:cacheprovider --timeout=900 --continue-on-collection-errors",
        "source_commits": [],
        "add_only": True,
    },
    "engines": [
        {
            "name": "pyvc",
            "path": "/verif/pyvc",
            "serves_properties": sorted(CLAIMED),
            "kind_free_text": "self-built verification-condition generator for a Python subset (ast -> z3), sidecar contracts/spec functions, run-time monitors as bounded stand-in and replay",
        }
    ],
    "checks": checks,
    "notes": "See DESIGN.md. Exit codes of ./check: 0 held, 1 violation, 2 undecided, 3 checker error.",
    "not_applicable": [
        {"property_id": pid, "reason": NOT_YET.get(pid, "check under construction in this session: contracts for this property are not registered yet (see DESIGN.md section 5 for the plan)")}
        for pid in sorted(TITLES)
        if pid not in CLAIMED
    ],
}
with open(os.path.join(HERE, "MANIFEST.json"), "w", encoding="utf-8") as fd:
    json.dump(manifest, fd, indent=1)
print("claimed:", sorted(CLAIMED), "not claimed:", len(manifest["not_applicable"]))

#!/usr/bin/env python3
"""Regenerates /verif/MANIFEST.json from the table below (kept next to the checks so the
manifest cannot drift from what `./check` implements)."""
import json
import os

HERE = os.path.dirname(os.path.dirname(os.path.abspath(__file__)))

TRUST = (
    "Trusted: the pyvc VC generator and its Py value encoding (DESIGN 3), the assumed library contracts in pyvc/lib.py "
    "(cross-checked against CPython on every run), the RFC transcriptions in specs/, z3. Integers are mathematical (exact for Python), "
    "floats are reals without inf/nan; documents are json.loads-shaped trees. "
)

CLAIMED = {
    "C01": dict(
        category="proof",
        text="Every selector/segment resolve body is proved equal, for all documents and all selector parameters, to the RFC 9535 node-level spec "
        "(name, index incl. the documented object departure, slice for all start/stop/step, wildcard, descendant by modular recursion, bracketed lists). "
        "The surface-syntax clause (lexer+parser produce the right selector tuple in every spelling) is a bounded stand-in, labelled bounded in evidence.",
        ref="5/C01",
        technique="contract-based deductive verification: ast->z3 VC generation over the real source, code-vs-spec-function equivalence per path; bounded enumeration for the parser",
        note=TRUST + "Dynamic dispatch inside ListSelector uses the abstract resolve contract; canonical_string is uninterpreted (its string law is bounded, C03).",
    ),
    "C08": dict(
        category="proof",
        text="Relational obligations: each resolve_async body is proved to produce the same yield sequence / exception as its resolve twin on the same symbolic input.",
        ref="5/C08",
        technique="contract-based deductive verification: relational (product) equivalence of sync/async twins by ast->z3 symbolic execution",
        note=TRUST + "await e is e's synchronous contract (DESIGN 3.6); getitem_async is assumed to return what getitem returns (the statement's hypothesis). Scheduler interleavings are not explored.",
    ),
}

NOT_YET = {}

TITLES = {}
with open(os.path.join(HERE, "properties.jsonl"), encoding="utf-8") as fd:
    for line in fd:
        p = json.loads(line)
        TITLES[p["id"]] = p["title"]

checks = []
for pid in sorted(CLAIMED):
    c = CLAIMED[pid]
    checks.append(
        {
            "property_id": pid,
            "quick_cmd": f"./check {pid} --tier quick",
            "thorough_cmd": f"./check {pid} --tier thorough",
            "evidence_file": f"/verif/evidence/{pid}.json",
            "replay_cmd_template": "/venv/bin/python {path}",
            "engine": "pyvc",
            "level_claimed": {"category": c["category"], "text": c["text"], "design_ref": c["ref"]},
            "level_note": c["note"],
            "technique": c["technique"],
        }
    )

manifest = {
    "version": 1,
    "setup_cmd": "./setup.sh",
    "hooks": {
        "guard": "JSONPATH_VERIF",
        "enable": "no hook or instrumentation in /repo: the checks re-read the source with ast and wrap the real functions from sidecar modules",
        "baseline_off_cmd": "cd /repo && /venv/bin/python -m pytest -ra -q -p no:cacheprovider --timeout=900 --continue-on-collection-errors",
        "source_commits": [],
        "add_only": True,
    },
    "engines": [
        {
            "name": "pyvc",
            "path": "/verif/pyvc",
            "serves_properties": sorted(CLAIMED),
            "kind_free_text": "self-built verification-condition generator for a Python subset (ast -> z3), sidecar contracts/spec functions, run-time monitors as bounded stand-in and replay",
        }
    ],
    "checks": checks,
    "notes": "See DESIGN.md. Exit codes of ./check: 0 held, 1 violation, 2 undecided, 3 checker error.",
    "not_applicable": [
        {"property_id": pid, "reason": NOT_YET.get(pid, "check under construction in this session: contracts for this property are not registered yet (see DESIGN.md section 5 for the plan)")}
        for pid in sorted(TITLES)
        if pid not in CLAIMED
    ],
}
with open(os.path.join(HERE, "MANIFEST.json"), "w", encoding="utf-8") as fd:
    json.dump(manifest, fd, indent=1)
print("claimed:", sorted(CLAIMED), "not claimed:", len(manifest["not_applicable"]))

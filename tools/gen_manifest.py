#!/usr/bin/env python3
"""Regenerates /verif/MANIFEST.json from the table below (kept next to the checks so the
manifest cannot drift from what `./check` implements)."""
import json
import os

HERE = os.path.dirname(os.path.dirname(os.path.abspath(__file__)))

TRUST = (
    "Trusted: the pyvc VC generator and its Py value encoding (DESIGN 3), the assumed library contracts in pyvc/lib.py "
    "(cross-checked against CPython on every run), the RFC transcriptions in specs/, z3. Integers are mathematical (exact for Python), "
    "floats are reals without inf/nan; documents are json.loads-shaped trees. "
)

TECH = "contract-based deductive verification: VCs generated from the real source (ast -> z3 symbolic execution, code path x spec path equivalence against sidecar spec functions), discharged by z3; "

CLAIMED = {
    "C01": dict(
        category="proof",
        text="Every selector/segment resolve body is proved equal, for all documents and all selector parameters, to the RFC 9535 node-level spec "
        "(name, index incl. the documented object departure, slice for all start/stop/step, wildcard, descendant by modular recursion, bracketed lists, filter selector skeleton). "
        "The surface-syntax clause (lexer+parser produce the right selector tuple in every spelling) is a bounded stand-in (monitors/c01.py), labelled bounded in evidence.",
        ref="5/C01",
        technique=TECH + "bounded enumeration of query ASTs x renderings x documents for the lexer/parser",
        note=TRUST + "Dynamic dispatch inside ListSelector uses the abstract resolve contract; canonical_string is uninterpreted (its string law is bounded, C03).",
    ),
    "C02": dict(
        category="proof",
        text="compare/_eq/_lt/is_truthy are proved equal to the RFC 9535 comparison table for all operand pairs; every filter node (infix, prefix, boolean, embedded @/$ queries, "
        "function call + the five standard functions, Filter.resolve) is proved against its RFC semantics with children abstract (structural induction). "
        "Two recorded findings are carved out of the preconditions (deep bool/number equality; `$` inside nested filters). Operator precedence/grouping of the Pratt parser is bounded (monitors/c02.py).",
        ref="5/C02",
        technique=TECH + "modular call contracts (compare, is_truthy, finditer), structural induction over expression nodes; bounded expression-tree enumeration for the parser",
        note=TRUST + "Well-typedness of the query (C07) is a precondition of the node contracts; re is opaque (uninterpreted match predicates); deep == on containers is uninterpreted with one-step unfolding.",
    ),
    "C03": dict(
        category="proof",
        text="The child(m,k,v) postcondition proved for every selector (C01 contracts) fixes path, parts, root and parent of each produced match; JSONPointer.from_match is proved to reuse the parts without re-parsing and "
        "_getitem/_index to resolve exact-typed parts. The pointer text re-parse: JSONPointer._encode / _parse (escape decoding off) / __truediv__ are proved to be the compositions of str.replace / split / join written in specs/rfc6901.py, whose string laws (parse(text(ts)) = ts for every token sequence, text(parse(s)) = s on valid texts, injectivity) are proved by induction in lemmas/PointerText.lean (core Lean 4, re-checked in every run, its model of the three library functions compared with CPython on 19 531 strings). The other string-level clauses (normalized-path syntax, canonical_string escape, path re-query by identity, escape decoding switched on) are bounded (monitors/c03.py).",
        ref="5/C03",
        technique=TECH + "bounded re-query / re-parse of every match of the query universe",
        note=TRUST + "canonical_string is uninterpreted in the proofs; str.replace / split / join are uninterpreted for the solver, their algebra comes from the Lean lemmas (library model assumed, cross-checked bounded).",
    ),
    "C04": dict(
        category="proof",
        text="_index (canonical-decimal tokens only), _getitem (complete RFC 6901 section 4 case table incl. strings/scalars, '-', out-of-range, non-canonical), resolve/exists/resolve_parent (fold rule) are proved against specs/rfc6901.py. "
        "JSONPointer._encode / _parse (escape decoding off) / __truediv__ are proved to be the compositions of str.replace / split / join written in specs/rfc6901.py, whose string laws (parse(text(ts)) = ts for every token sequence, text(parse(s)) = s on valid texts, injectivity) are proved by induction in lemmas/PointerText.lean (core Lean 4, re-checked in every run, its model of the three library functions compared with CPython on 19 531 strings). With escape / URI decoding switched on the text decoder is bounded (monitors/c04.py: every location of the document universe + one-token mutations).",
        ref="5/C04",
        technique=TECH + "regex-language membership for token classes, fold rule for reduce; Lean 4 induction for the escape / split / join round trips; bounded enumeration for the optional decoders",
        note=TRUST + "'#'/'~'-prefixed tokens and leading blanks are outside the clause (as in the statement); list lengths are below 2**53.",
    ),
    "C05": dict(
        category="proof",
        text="Each operation's apply is proved equal to RFC 6902 section 4 on the container that holds the target (mutable-box heap model, resolve_parent through its proved contract), per token class; "
        "move/copy for source and destination in one array. Two recorded findings are carved out (test uses Python ==; negative indices accepted). "
        "The lifting to whole documents, objects in move/copy, and operation sequences are bounded (monitors/c05.py against a functional reference).",
        ref="5/C05",
        technique=TECH + "mutable-box heap model with write-back, modular resolve_parent contract; bounded differential check against a functional RFC 6902 reference",
        note=TRUST + "Lifting assumption: mutating the parent container of a tree-shaped document is the whole-document update (validated bounded). Integer-looking *string* tokens are verified only in the thorough tier.",
    ),
    "C08": dict(
        category="proof",
        text="Relational obligations: each resolve_async / evaluate_async body is proved to produce the same yield sequence / value / exception as its sync twin on the same symbolic input (8 selectors, filter nodes, embedded queries, function calls, JSONPath.finditer_async, CompoundJSONPath.findall_async / finditer_async for any number of operands); documents given as JSON text or as a readable file are proved to give what the parsed value gives for the sync and the async entry points of simple and compound queries alike (a file is read once). "
        "Environment-level entry points, async item getters and concurrent awaits are cross-checked bounded (monitors/c08.py).",
        ref="5/C08",
        technique=TECH + "relational (product) equivalence of sync/async twins; bounded differential run on one event loop",
        note=TRUST + "await e is e's synchronous contract (DESIGN 3.6); getitem_async is assumed to return what getitem returns (the statement's hypothesis). Scheduler interleavings are not explored.",
    ),
    "C12": dict(
        category="proof",
        text="Every Query operation is proved equal to its list-slicing spec on the abstract view of the remaining matches (limit/head/first, skip/drop, tail/last, take, tee, first_one/one/last_one, values/locations/items); chains follow by composition. "
        "Consumption-order independence of take/tee (laziness) and all chains of length <= 3 are checked bounded (monitors/c12.py).",
        ref="5/C12",
        technique=TECH + "data-structure-against-abstract-view contracts over an itertools library model; bounded exhaustive chains",
        note=TRUST + "itertools.islice is modelled eagerly (equal to the lazy one only under iterator ownership); the bounded part covers the lazy orders.",
    ),
    "C06": dict(
        category="proof",
        text="Exceptional postconditions `raises subset-of family` proved on every path of compare (all operators, arbitrary operands), every selector resolve, the standard function calls, JSONPointer._index/_getitem, "
        "JSONPatch.apply's error translation (abstract operations raising anything of the pointer/patch families) and the exceptions' __str__. Lexer/parser, text decoders and termination of compilation are bounded (monitors/c06.py fuzz under a 2 s alarm).",
        ref="5/C06",
        technique=TECH + "exceptional postconditions over library raise-conditions; bounded token-soup / single-edit fuzzing for the parser and decoders",
        note=TRUST + "re is opaque; the raise-conditions of builtins are the library model's; termination is proved only for the evaluator's loops (foreach over finite sequences), not for compilation.",
    ),
    "C07": dict(
        category="proof",
        text="Integer range checks of index and slice selectors proved for symbolic limits (all configurations at once); singular-query classification proved against the RFC definition over the selector-class enumeration. "
        "The typing rules of section 2.4.3 are proved on the three functions that implement them: check_well_typedness accepts a call of each standard function exactly when arity and every argument's kind fit the declared parameter type (literal / singular or other query / logical expression / function of each declared result type; singularity symbolic), "
        "_raise_for_uncompared refuses exactly literals and ValueType results in test position, _raise_for_non_comparable_function exactly non-singular queries and non-ValueType results - against an independent statement of the rules (specs/typing9535.py). "
        "That the parser calls them at every logical position, and acceptance / rejection of whole queries, are bounded (monitors/c07.py).",
        ref="5/C07",
        technique=TECH + "proof by cases over the finite selector / expression class hierarchy (each case symbolic in its contents); bounded well-typed / ill-typed expression universes for the parser",
        note=TRUST + "The case split over argument kinds is exhaustive for the five standard functions; LogicalType parameters (none of the five has one) are outside the statement's quantifier.",
    ),
    "C09": dict(
        category="proof",
        text="Write frames proved for every selector resolve / resolve_async and Filter.resolve (no store into DOC / CTX / QUERY objects); for fixed expression-tree shapes with abstract leaves cache_tree() is proved to leave the compiled tree untouched "
        "and the caching copy to evaluate like the plain expression on two candidates of one resolution (2-safety with the volatility contract). Interleavings, threads, repeated use and caching on/off are cross-checked bounded (monitors/c09.py).",
        ref="5/C09",
        technique=TECH + "frame (modifies) postconditions from origin-tagged heap objects; relational cached-vs-plain evaluation; bounded schedule enumeration",
        note=TRUST + "Tree shapes are a fixed list (bounded in shape, unbounded in the leaves); thread schedules are not explored: the claim is that no shared object is written.",
    ),
    "C10": dict(
        category="other",
        text="The closing step of this property is a round trip through the lexer and parser, which no contract in reach decides: the deciding check is the bounded round trip (monitors/c10.py: str -> compile -> fixed point -> same matches on the document universe).",
        ref="5/C10",
        technique="bounded round-trip enumeration (stand-in: the printer/parser pair is outside the VC generator's reach)",
        note="Bounded only; labelled so in evidence. " + TRUST,
    ),
    "C11": dict(
        category="proof",
        text="JSONPath.finditer proved equal to the fold of resolve over the segments from the root node (fake root, filter context default, load_data); findall == values(finditer), match == first(finditer); the environment-level forms proved to delegate to compile().method with the same arguments. "
        "Compound queries: findall / finditer / match and their async twins proved equal to the left-to-right union / intersection of the operands' results for ANY number of operands (fold rule over the operand loop, operands abstract); "
        "that find-all is the values of find-iter for compound queries is the list lemma values_of_compound, re-checked by Lean on every run. JSON text and readable-file documents proved to give what the parsed value gives (simple and compound queries; a file is read once); the environment-level forms hand a file-like document on unread. "
        "Query objects and the whole pipeline end to end are bounded (monitors/c11.py).",
        ref="5/C11",
        technique=TECH + "fold rule for the segment pipeline and the operand loop (branching step, element invariants), modular finditer contract, Lean-checked list lemma; bounded differential run of all entry points",
        note=TRUST + "json.loads is an uninterpreted library contract (json_ok / json_loads); an operand's async methods are identified with their sync twins (proved per operand in C08); itertools.chain is a library contract.",
    ),
    "C13": dict(
        category="proof",
        text="Evaluation-side extensions proved: keys selector, fake root in finditer, current key, filter-context path and its propagation into nested queries, in / contains / =~ / <> in compare, undefined/nil comparisons. "
        "That every alias spelling lexes and parses to the standard tree in every position is bounded (monitors/c13.py).",
        ref="5/C13",
        technique=TECH + "bounded alias-form / standard-form pairs for the lexer and parser",
        note=TRUST,
    ),
    "C14": dict(
        category="proof",
        text="Token-level operations proved: _index, __eq__ (== equality of string tokens), parent, is_relative_to, from_match, and p / text == p's tokens followed by the text's tokens (__truediv__)." + """ JSONPointer._encode / _parse (escape decoding off) / __truediv__ are proved to be the compositions of str.replace / split / join written in specs/rfc6901.py, whose string laws (parse(text(ts)) = ts for every token sequence, text(parse(s)) = s on valid texts, injectivity) are proved by induction in lemmas/PointerText.lean (core Lean 4, re-checked in every run, its model of the three library functions compared with CPython on 19 531 strings).""" + " from_parts spelling with its optional decoders and join over several parts are bounded exhaustively over short token sequences (monitors/c14.py).",
        ref="5/C14",
        technique=TECH + "Lean 4 induction over List Char for the string laws (parse / print round trips, injectivity of the spelling); exhaustive bounded enumeration of token sequences for from_parts / join and as a cross-check",
        note=TRUST + "At call sites _encode/_parse are summarised by uninterpreted functions; the Lean definitions of replace / split / join are assumed to be CPython's (compared on 19 531 strings per run).",
    ),
    "C15": dict(
        category="proof",
        text="addne / addap proved against their documented difference from add on the parent container (same heap model as C05). Construction: for each of the eight operation names, JSONPatch._build of the document form and the builder call are proved to leave patches that print the same list of dicts - "
        "[{op: the name given, path/from: the pointer text, value}] - or both refuse with JSONPatchError; missing members and unknown names are refused; the caller's list and dicts are only read. Frames: no apply stores into the operation, its pointers, the patch or its operation list. "
        "Value ownership (deep copies), repeated application and independence of results are bounded (monitors/c15.py).",
        ref="5/C15",
        technique=TECH + "relational equivalence of the two construction routes, write-frame postconditions from the store trace; bounded differential check of repeated application",
        note=TRUST + "JSONPointer._parse / _encode are uninterpreted functions of the text (string laws bounded in C04/C14); copy.deepcopy is the identity on values, so aliasing between a patch's values and the document is only seen by the bounded part.",
    ),
    "C16": dict(
        category="proof",
        text="RelativeJSONPointer.to() proved against the draft's evaluation (steps, offset on a final array index, suffix / key marker, the three refusals) for int index tokens; string index tokens in the thorough tier. Grammar, printing and both entry points are bounded exactly over the statement's quantifier (monitors/c16.py).",
        ref="5/C16",
        technique=TECH + "bounded exhaustive base x steps x offset x suffix universe for the grammar",
        note=TRUST + "from_parts is uninterpreted; an offset applied to a non-index token is left unconstrained (the statement only fixes final array indices).",
    ),
    "C17": dict(
        category="other",
        text="Meaning under renamed identifier tokens is decided by lexing under the renamed configuration, outside the VC generator's reach: bounded over configurations with prefix-related spellings x templates x documents, incl. the string-form round trip (monitors/c17.py).",
        ref="5/C17",
        technique="bounded configuration enumeration (stand-in: regex lexer construction is outside the VC generator's reach)",
        note="Bounded only; labelled so in evidence. " + TRUST,
    ),
    "C18": dict(
        category="proof",
        text="The three handlers (handle_path_command, handle_pointer_command, handle_patch_command) are proved, for every option combination, to be faithful front ends of an abstract library: on success exactly one json.dump of what the library returned, to args.output, indented exactly when --pretty, nothing on stderr; "
        "on any class of the library's documented rejection families (and an undecodable document) SystemExit(1) after a message on stderr and nothing dumped, or - with --debug - the exception itself; the library is called with the options the command line gave. "
        "The argparse definitions (file modes, option names), __main__, real files and encodings are bounded end to end (monitors/c18.py, in-process and through subprocesses).",
        ref="5/C18",
        technique=TECH + "postconditions over the effect trace of the real handler bodies with the library calls, json.dump/load, sys.exit and the streams as stated abstractions; bounded option-matrix enumeration end to end",
        note=TRUST + "Which exception classes each library call can raise is the documented family (compile: syntax/type/index/name; findall: type; pointer.resolve: JSONPointerError and subclasses; patch.apply: JSONPatchError and subclasses; decoding: JSONDecodeError, or UnicodeDecodeError for bytes that are no text) - assumed here, decided for the library itself in C06/C07.",
    ),
    "C19": dict(
        category="other",
        text="Deciding step (bounded): projection against an independent reference built from the relative matches, three styles, overlapping and out-of-order selections, document unchanged (monitors/c19.py). "
        "Under contract (discharged, but only a part of the claim): the per-match skeleton Query._select - non-containers give nothing; flat = selected values in selection order; relative / root hand each selected value with its relative / root location to the placement step, then compact; the document is only read. "
        "_fix_sparse_arrays is proved one level at a time against its statement (modular recursion; `sorted` is an uninterpreted permutation, so the rank order itself is not proved). "
        "_patch_obj is proved equal to the recursive statement of placement for every tree shape along locations of length <= 3 (tokens, value and all other members symbolic) - bounded in the length of the location, hence not counted as proved for all locations.",
        ref="5/C19",
        technique="bounded differential check against a reference projection; " + TECH + "for the Query._select skeleton only",
        note="Level other: the helpers that build the projected value are decided by the bounded part only. " + TRUST,
    ),
    "C20": dict(
        category="proof",
        text="Composition over proved contracts: every selector produces well-located matches with exact-typed parts (C01/C03), from_match reuses the parts, _getitem/resolve_parent resolve them without conversion, and test/replace/remove are proved on the parent container (C05); the pointer's text form round-trips through the proved codec contracts and Lean lemmas (see C04). The end-to-end composition is cross-checked bounded (monitors/c20.py).",
        ref="5/C20",
        technique=TECH + "lemma over the selector, pointer and patch contracts; bounded end-to-end differential check",
        note=TRUST + "The whole-document lifting assumption of C05 applies.",
    ),
}

NOT_YET = {}

TITLES = {}
with open(os.path.join(HERE, "properties.jsonl"), encoding="utf-8") as fd:
    for line in fd:
        p = json.loads(line)
        TITLES[p["id"]] = p["title"]

checks = []
for pid in sorted(CLAIMED):
    c = CLAIMED[pid]
    checks.append(
        {
            "property_id": pid,
            "quick_cmd": f"./check {pid} --tier quick",
            "thorough_cmd": f"./check {pid} --tier thorough",
            "evidence_file": f"/verif/evidence/{pid}.json",
            "replay_cmd_template": "/venv/bin/python {path}",
            "engine": "pyvc",
            "level_claimed": {"category": c["category"], "text": c["text"], "design_ref": c["ref"]},
            "level_note": c["note"],
            "technique": c["technique"],
        }
    )

manifest = {
    "version": 1,
    "setup_cmd": "./setup.sh",
    "hooks": {
        "guard": "JSONPATH_VERIF",
        "enable": "no hook or instrumentation in /repo: the checks re-read the source with ast and wrap the real functions from sidecar modules",
        "baseline_off_cmd": "cd /repo && /venv/bin/python -m pytest -ra -q -p no:cacheprovider --timeout=900 --continue-on-collection-errors",
        "source_commits": [],
        "add_only": True,
    },
    "engines": [
        {
            "name": "pyvc",
            "path": "/verif/pyvc",
            "serves_properties": sorted(CLAIMED),
            "kind_free_text": "self-built verification-condition generator for a Python subset (ast -> z3), sidecar contracts/spec functions, run-time monitors as bounded stand-in and replay",
        }
    ],
    "checks": checks,
    "notes": "See DESIGN.md (section 11 is the as-built description). Exit codes of ./check: 0 held, 1 violation, 2 undecided (a contract that was discharged on the reference tree no longer is, without a counterexample), 3 checker error. "
    "Quick tier: 1 s - 1 min per property on 16 cores. Thorough tier: the same contracts plus the string-token contracts (open proof attempts, reported but not counted) and deeper bounded universes; "
    "about 10-20 min for C05, C15, C16, C20, a few minutes for the others. lemmas/Rules.lean is re-checked by core Lean 4 in every run that uses a loop rule. "
    "baseline_obligations.json is the ledger of contracts discharged on the reference tree; known_findings.json lists the open findings (with carve-outs) and the fixed ones.",
    "not_applicable": [
        {"property_id": pid, "reason": NOT_YET.get(pid, "check under construction in this session: contracts for this property are not registered yet (see DESIGN.md section 5 for the plan)")}
        for pid in sorted(TITLES)
        if pid not in CLAIMED
    ],
}
with open(os.path.join(HERE, "MANIFEST.json"), "w", encoding="utf-8") as fd:
    json.dump(manifest, fd, indent=1)
print("claimed:", sorted(CLAIMED), "not claimed:", len(manifest["not_applicable"]))

#!/usr/bin/env python3
"""Apply each seeded change under /verif/seeded to /repo, run the checks of the property it breaks
(plus any extra property given), undo it, and report which check caught it.

  tools/run_seeded.py [id ...] [--props C01,C08] [--tier quick]
  --worktree=DIR  apply to a scratch git worktree of /repo at DIR instead (checks run with VERIF_REPO=DIR,
                  evidence of those runs goes to DIR/.verif_evidence): leaves /repo free for other work.
Never leaves /repo modified (git checkout -- . after every mutant)."""
import json
import os
import subprocess
import sys
import time

HERE = os.path.dirname(os.path.dirname(os.path.abspath(__file__)))
REPO = "/repo"


def sh(cmd, **kw):
    return subprocess.run(cmd, shell=True, capture_output=True, text=True, **kw)


def main():
    args = [a for a in sys.argv[1:] if not a.startswith("--")]
    opts = dict(a[2:].split("=", 1) for a in sys.argv[1:] if a.startswith("--") and "=" in a)
    ids = args or sorted(x for x in os.listdir(os.path.join(HERE, "seeded")) if not x.startswith("_"))
    tier = opts.get("tier", "quick")
    global REPO
    env = dict(os.environ)
    if opts.get("worktree"):
        REPO = opts["worktree"]
        if not os.path.isdir(REPO):
            assert sh(f"git -C /repo worktree add --detach {REPO} HEAD").returncode == 0
        else:
            sh(f"git -C {REPO} checkout -q --detach $(git -C /repo rev-parse HEAD)")
        env["VERIF_REPO"] = REPO
        env["VERIF_EVIDENCE_DIR"] = os.path.join(REPO, ".verif_evidence")
    assert sh(f"git -C {REPO} status --porcelain --untracked-files=no").stdout.strip() == "", f"{REPO} is not clean"
    results = {}
    for mid in ids:
        d = os.path.join(HERE, "seeded", mid)
        if not os.path.isfile(os.path.join(d, "patch.diff")):
            continue
        meta = {}
        for name in ("meta.json", "meta.agent.json"):
            if os.path.isfile(os.path.join(d, name)):
                meta = json.load(open(os.path.join(d, name)))
                break
        props = opts.get("props", meta.get("property", mid.split("_")[0])).split(",")
        r = sh(f"git -C {REPO} apply {d}/patch.diff")
        if r.returncode != 0:
            results[mid] = {"applied": False, "err": r.stderr[-300:]}
            sh(f"git -C {REPO} checkout -- .")
            print(mid, "patch does not apply to the current tree (stale):", r.stderr[-200:].strip(), flush=True)
            continue
        try:
            out = {}
            for p in props:
                t = time.time()
                c = sh(f"./check {p} --tier {tier}", cwd=HERE, env=env)
                viol = [l for l in c.stdout.splitlines() if l.startswith("VIOLATION")]
                out[p] = {"exit": c.returncode, "violations": len(viol), "first": (viol[0] if viol else ""), "wall": round(time.time() - t, 1),
                          "summary": next((l for l in c.stdout.splitlines() if l.startswith(p + " tier")), "")[:200]}
            results[mid] = {"applied": True, "checks": out, "caught": any(v["exit"] == 1 for v in out.values())}
        finally:
            sh(f"git -C {REPO} checkout -- .")
        print(mid, json.dumps(results[mid])[:600], flush=True)
    assert sh(f"git -C {REPO} status --porcelain --untracked-files=no").stdout.strip() == "", f"{REPO} left dirty!"
    out_name = opts.get("out", "last_run.json")
    with open(os.path.join(HERE, "seeded", out_name), "w") as fd:
        json.dump(results, fd, indent=1)
    print("caught:", sum(1 for r in results.values() if r.get("caught")), "of", len(results))


if __name__ == "__main__":
    main()

"""Developer helper: run named contracts (with the carve-outs of the open known findings, as
run_check.py does) and print status, refutations and replays.
   python3-vt tools/run_contracts.py [--raw] NAME...        (VERIF_REPO=<scratch tree> to check a copy)"""
import json
import os
import sys

HERE = os.path.dirname(os.path.dirname(os.path.abspath(__file__)))
sys.path.insert(0, HERE)
sys.path.insert(0, os.environ.get("VERIF_REPO", "/repo"))
from pyvc import harness  # noqa: E402

harness.load_all_contracts()
from contracts import carveouts  # noqa: E402

raw = "--raw" in sys.argv
names = [a for a in sys.argv[1:] if a != "--raw"] or sorted(harness.REGISTRY)
findings = json.load(open(os.path.join(HERE, "known_findings.json")))["findings"]
for n in names:
    ids = [] if raw else [f["carveout"] for f in findings if f["status"] == "open" and n in f.get("contracts", []) and f.get("carveout")]
    r = harness.run_contract(n, [carveouts.CARVEOUTS[c] for c in ids])
    print(n, r["status"], "obl", r["obligations"], "dis", r["discharged"], "paths", r["paths"], "wall", r["wall_s"], "solver", r["solver_s"], "carveouts", ids)
    if r["unsupported"]:
        print("   ", r["unsupported"][:1500])
    for x in r["refuted"]:
        print("   REFUTED", x["obligation"], x["note"][:200], json.dumps(x["inputs"])[:300], "\n      replay:", x["replayed"], x.get("replay_error"))
    for x in r["unknown"]:
        print("   UNKNOWN", x)

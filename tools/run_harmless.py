#!/usr/bin/env python3
"""Apply each behaviour-preserving refactor under seeded/_harmless to a scratch worktree of /repo and run
the checks of every property that covers the edited function: every run must exit 0 (no false alarm).

  tools/run_harmless.py [h1 h2 ...] [--worktree=/tmp/wt_harmless]"""
import json
import os
import subprocess
import sys

HERE = os.path.dirname(os.path.dirname(os.path.abspath(__file__)))
PROPS = {
    "h1": "C01 C03 C06 C08 C09 C20", "h2": "C02 C13 C06", "h3": "C02 C06", "h4": "C02 C13 C08 C09", "h5": "C14 C05",
    "h6": "C05 C15", "h7": "C06 C05 C15", "h8": "C11", "h9": "C12", "h10": "C18",
    "g1": "C01 C03 C06 C08 C09 C20", "g2": "C01 C03 C06 C08 C09 C20", "g3": "C01 C03 C08 C09", "g4": "C01 C02 C08 C09 C13", "g5": "C13 C06 C08 C09",
    "g6": "C02 C06 C08 C09", "g7": "C09 C02", "g8": "C04 C03 C20 C06", "g9": "C04 C05 C20", "g10": "C16", "g11": "C05 C20 C15", "g12": "C05 C20 C15",
    "g13": "C15", "g14": "C11 C08",
    "f1": "C12", "f2": "C12", "f3": "C19", "f4": "C19", "f5": "C19", "f6": "C18", "f7": "C07", "f8": "C07", "f9": "C05 C15", "f10": "C15",
    "f11": "C04 C20", "f12": "C08 C11",
    "e1": "C05 C06 C15", "e2": "C05", "e3": "C15", "e4": "C15", "e5": "C02 C06", "e6": "C02 C13 C06", "e7": "C01 C03 C06 C08 C09 C20", "e8": "C02 C08 C09",
    "e9": "C13 C09", "e10": "C14", "e11": "C12", "e12": "C07",
    # fifth set: the functions put under contract or touched in the last session (pointer text codec, SelfPath, CLI, compound, printers)
    "d1": "C14 C04 C15", "d2": "C04 C14 C05", "d3": "C14", "d4": "C14", "d5": "C02 C13 C08 C09", "d6": "C18", "d7": "C11 C08", "d8": "C10 C17 C06",
}


def sh(cmd, **kw):
    return subprocess.run(cmd, shell=True, capture_output=True, text=True, **kw)


def main():
    ids = [a for a in sys.argv[1:] if not a.startswith("--")] or sorted(PROPS, key=lambda x: (x[0], int(x[1:])))
    opts = dict(a[2:].split("=", 1) for a in sys.argv[1:] if a.startswith("--") and "=" in a)
    wt = opts.get("worktree", "/tmp/wt_harmless")
    if not os.path.isdir(wt):
        assert sh(f"git -C /repo worktree add --detach {wt} HEAD").returncode == 0
    else:
        sh(f"git -C {wt} checkout -q --detach $(git -C /repo rev-parse HEAD)")
    env = dict(os.environ, VERIF_REPO=wt, VERIF_EVIDENCE_DIR=os.path.join(wt, ".verif_evidence"))
    results, bad = {}, 0
    for h in ids:
        sh(f"git -C {wt} checkout -q -- .")
        r = sh(f"git -C {wt} apply {HERE}/seeded/_harmless/{h}/patch.diff")
        if r.returncode != 0:
            results[h] = {"applied": False, "err": r.stderr[-200:]}
            print(h, "does not apply (stale)")
            continue
        results[h] = {}
        for p in PROPS[h].split():
            c = sh(f"./check {p}", cwd=HERE, env=env)
            results[h][p] = c.returncode
            bad += c.returncode != 0
            print(h, p, "exit", c.returncode, next((l for l in c.stdout.splitlines() if " tier=" in l), "")[:150], flush=True)
            if c.returncode != 0:
                print("\n".join(l[:300] for l in c.stdout.splitlines() if l.startswith(("VIOLATION", "  UNDECIDED", "  CHECKER")))[:1500])
    sh(f"git -C {wt} checkout -q -- .")
    out = os.path.join(HERE, "seeded", "_harmless", "last_run.json")
    try:
        with open(out) as fd:
            merged = json.load(fd)
    except (OSError, ValueError):
        merged = {}
    merged.update(results)
    with open(out, "w") as fd:
        json.dump(merged, fd, indent=1, sort_keys=True)
    print("non-zero exits:", bad)
    return 1 if bad else 0


if __name__ == "__main__":
    sys.exit(main())

"""C11: compound queries (`|` and `&`), any number of operands, through every entry point.

The operands are abstract compiled queries (their find-all / find-iter are uninterpreted functions of
(query, document, filter context); `JSONPath.findall == values(finditer)` etc. are proved in
contracts/paths.py).  The loop over the operands is summarised by the fold rule: the real loop and the
loop of the specification are the same fold when their steps are the same function of (accumulated
result, operand) - for every number of operands."""
from __future__ import annotations

import z3

import specs.compound as cspec
from contracts.common import env_obj, method, mod, spec_fn
from contracts.paths import _abstract_path
from pyvc import lib
from pyvc import sorts as S
from pyvc.harness import contract
from pyvc.sorts import Py

pathm = mod("jsonpath.path")
CP = "jsonpath.path:CompoundJSONPath."


def _setup(ctx):
    rest = ctx.seq("paths")
    union, inter = ctx.str("union_token"), ctx.str("intersection_token")
    data = ctx.json("data")
    fc = ctx.val("filter_context")
    ctx.require(z3.Not(Py.is_str(data)), z3.Or(Py.is_none(fc), z3.And(Py.is_dict(fc), S.json_value(fc))), union != inter)

    def operand_ok(e):
        # what the parser builds: (operator spelling, compiled query), the operator being one of the two
        return z3.And(
            Py.is_tuple(e),
            z3.Length(Py.titems(e)) == 2,
            z3.Or(Py.titems(e)[0] == Py.str(union), Py.titems(e)[0] == Py.str(inter)),
            Py.is_obj(Py.titems(e)[1]),
        )

    def mk(it):
        it.elem_facts = [(rest, operand_ok)]
        env = env_obj(it, union_token=Py.str(union), intersection_token=Py.str(inter))
        first = _abstract_path(it, S.mk_str("<first operand>"))
        return it.alloc(pathm.CompoundJSONPath, {"env": env, "path": first, "paths": Py.tuple(rest)}, origin="QUERY"), first

    return mk, rest, data, fc, union


@contract("CompoundJSONPath.findall==spec", ("C11",), [CP + "findall", "jsonpath._data:load_data"], replay=("compound_replay", ["findall"], "compound_candidates"))
def _findall(ctx):
    mk, rest, data, fc, union = _setup(ctx)

    def code(it):
        c, _ = mk(it)
        return it.call_method(c, "findall", [data], {"filter_context": fc})

    def spec(it):
        _, first = mk(it)
        return it.run_function(spec_fn(cspec, "compound_values"), [first, Py.tuple(rest), data, fc, Py.str(union)], {})

    ctx.equiv("findall", code, spec)


@contract("CompoundJSONPath.finditer==spec", ("C11",), [CP + "finditer", CP + "_intersection", "jsonpath._data:load_data"], replay=("compound_replay", ["finditer"], "compound_candidates"))
def _finditer(ctx):
    mk, rest, data, fc, union = _setup(ctx)

    def code(it):
        c, _ = mk(it)
        return Py.list(lib.seq_of(it, it.call_method(c, "finditer", [data], {"filter_context": fc})))

    def spec(it):
        _, first = mk(it)
        return it.run_function(spec_fn(cspec, "compound_nodes"), [first, Py.tuple(rest), data, fc, Py.str(union)], {})

    ctx.equiv("finditer", code, spec)


@contract("CompoundJSONPath.match==first(finditer)", ("C11",), [CP + "match"], replay=("compound_replay", ["match"], "compound_candidates"))
def _match(ctx):
    mk, rest, data, fc, union = _setup(ctx)

    def code(it):
        c, _ = mk(it)
        return it.call_method(c, "match", [data], {"filter_context": fc})

    def spec(it):
        c, first = mk(it)
        nodes = Py.list(lib.seq_of(it, it.call_method(c, "finditer", [data], {"filter_context": fc})))
        return it.run_function(spec_fn(cspec, "first_of"), [nodes], {})

    ctx.equiv("match", code, spec)


@contract("CompoundJSONPath.findall_async==findall", ("C11", "C08"), [CP + "findall_async", CP + "findall"], replay=("compound_replay", ["findall_async"], "compound_candidates"))
def _findall_twin(ctx):
    mk, rest, data, fc, union = _setup(ctx)
    ctx.equiv(
        "findall_async",
        lambda it: it.call_method(mk(it)[0], "findall_async", [data], {"filter_context": fc}),
        lambda it: it.call_method(mk(it)[0], "findall", [data], {"filter_context": fc}),
    )


@contract("CompoundJSONPath.finditer_async==finditer", ("C11", "C08"), [CP + "finditer_async", CP + "_intersection_async", CP + "finditer"], replay=("compound_replay", ["finditer_async"], "compound_candidates"))
def _finditer_twin(ctx):
    mk, rest, data, fc, union = _setup(ctx)
    ctx.equiv(
        "finditer_async",
        lambda it: Py.list(lib.seq_of(it, it.call_method(mk(it)[0], "finditer_async", [data], {"filter_context": fc}))),
        lambda it: Py.list(lib.seq_of(it, it.call_method(mk(it)[0], "finditer", [data], {"filter_context": fc}))),
    )


def _register_compound_forms(meth):
    @contract(f"CompoundJSONPath.{meth}[text|file]=={meth}[parsed]", ("C11", "C08"), [CP + meth, "jsonpath._data:load_data"], replay=("compound_forms_replay", [meth], "compound_candidates"))
    def _c(ctx, meth=meth):
        """A compound query reads a file once and applies every operand to the same parsed value."""
        from contracts.paths import _text_inputs

        rest = ctx.seq("paths")
        union, inter = ctx.str("union_token"), ctx.str("intersection_token")
        _, text, parsed, fc, as_file = _text_inputs(ctx)
        ctx.require(union != inter)

        def operand_ok(e):
            return z3.And(Py.is_tuple(e), z3.Length(Py.titems(e)) == 2, z3.Or(Py.titems(e)[0] == Py.str(union), Py.titems(e)[0] == Py.str(inter)), Py.is_obj(Py.titems(e)[1]))

        def run(it, mkdoc):
            it.elem_facts = [(rest, operand_ok)]
            env = env_obj(it, union_token=Py.str(union), intersection_token=Py.str(inter))
            first = _abstract_path(it, S.mk_str("<first operand>"))
            c = it.alloc(pathm.CompoundJSONPath, {"env": env, "path": first, "paths": Py.tuple(rest)}, origin="QUERY")
            v = it.call_method(c, meth, [mkdoc(it)], {"filter_context": fc})  # the query objects first: same references on both sides
            return Py.list(lib.seq_of(it, v)) if "iter" in meth else v

        def on_parsed(it):
            it.assume(S.json_value(parsed))
            return run(it, lambda it_: parsed)

        ctx.equiv(f"{meth}[text]", lambda it: run(it, lambda it_: Py.str(text)), on_parsed)
        ctx.equiv(f"{meth}[file]", lambda it: run(it, as_file), on_parsed)


for _m in ("findall", "finditer", "findall_async", "finditer_async"):
    _register_compound_forms(_m)

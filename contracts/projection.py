"""C19: the per-match skeleton of `Query.select` (`Query._select`) against the statement over the
relative matches; `_patch_obj` / `_fix_sparse_arrays` appear through abstract contracts here (recorded
effects) and are contracted on their own below where the engine reaches them."""
from __future__ import annotations

import z3

import specs.projection as pspec
from contracts.common import env_obj, match_facts, method, mod, no_foreign_writes, spec_fn
from contracts.paths import _abstract_path
from pyvc import lib
from pyvc import sorts as S
from pyvc.harness import call_contract, contract
from pyvc.interp import SymObj, Unsupported
from pyvc.sorts import Py

fl = mod("jsonpath.fluent_api")
Q = "jsonpath.fluent_api:"


def _place(it, fv, args, kwargs):
    it.trace.append(("effect", "place", lib.T(it, args[0]), lib.T(it, args[2])))
    it.assumed.append("contract:_patch_obj / place (abstract: recorded as an effect in this obligation)")
    return S.NONE


def _compacted(it, fv, args, kwargs):
    it.trace.append(("effect", "compacted"))
    return S.mk_str("<the compaction of what was placed>")


def _new_node(it, fv, args, kwargs):
    return it.alloc(fl._Node, {"v": Py.dict(S.EmptySeq, S.EmptySeq)}, origin="FRESH")


call_contract("jsonpath.fluent_api:_patch_obj")(_place)
call_contract("specs.projection:place")(_place)
call_contract("jsonpath.fluent_api:_fix_sparse_arrays")(_compacted)
call_contract("specs.projection:compacted")(_compacted)
call_contract("specs.projection:new_node")(_new_node)


def _setup(ctx):
    m = ctx.val("match")
    exprs = ctx.seq("expressions")
    ctx.require(match_facts(m))

    def mk(it):
        # expressions: query texts (compiled by the abstract environment) or compiled queries
        it.elem_facts = [(exprs, lambda e: z3.Or(Py.is_str(e), Py.is_obj(e)))]
        env = env_obj(it)
        env.fields["compile"] = lib.Builtin("compile", lambda it_, a, k: _abstract_path(it_, a[0]))
        q = it.alloc(fl.Query, {"_env": env, "_it": lib.new_iterator(it, S.EmptySeq)}, origin="FRESH")
        return q, env

    return m, exprs, mk


def _register(style):
    @contract(f"Query._select[{style}]==spec", ("C19",), [Q + "Query._select"])
    def _c(ctx, style=style):
        m, exprs, mk = _setup(ctx)
        proj = getattr(fl.Projection, style)

        def code(it):
            q, env = mk(it)
            return it.run_function(method(fl.Query, "_select"), [q, m, Py.tuple(exprs), it.lift(proj)], {})

        def spec(it):
            q, env = mk(it)
            return it.run_function(spec_fn(pspec, "select_one"), [env, m, Py.tuple(exprs), it.lift(proj)], {})

        ctx.equiv(f"_select[{style}]", code, spec, post=no_foreign_writes, compare_effects=True)


for _s in ("RELATIVE", "ROOT", "FLAT"):
    _register(_s)


# ------------------------------------------------------------------ _fix_sparse_arrays, one level (modular recursion)

fix_abs = z3.Function("projection_fix", Py, Py)


def _fix_child(it, fv, args, kwargs):
    """The recursive call on a child: an uninterpreted function of the child (induction hypothesis)."""
    return fix_abs(lib.T(it, args[0]))


call_contract("specs.projection:fix")(_fix_child)


@contract("_fix_sparse_arrays==spec[document value]", ("C19",), [Q + "_fix_sparse_arrays"])
def _fix_value(ctx):
    """On a value of the document (not a projection node): copied level by level, never turned into an array."""
    v = ctx.json("value")

    def code(it):
        it.recursion_contract = {"jsonpath.fluent_api:_fix_sparse_arrays": _fix_child}
        return it.run_function(method_fn("_fix_sparse_arrays"), [v], {})

    ctx.equiv("_fix_sparse_arrays[value]", code, lambda it: it.run_function(spec_fn(pspec, "compact_one"), [v, S.FALSE], {}))


@contract("_fix_sparse_arrays==spec[projection node]", ("C19",), [Q + "_fix_sparse_arrays"])
def _fix_node(ctx):
    """On a projection node with arbitrary members."""
    keys, vals = ctx.seq("keys"), ctx.seq("vals")
    ctx.require(z3.Length(keys) == z3.Length(vals))
    content = Py.dict(keys, vals)

    def code(it):
        it.recursion_contract = {"jsonpath.fluent_api:_fix_sparse_arrays": _fix_child}
        it.elem_facts = [(keys, lambda k: z3.Or(Py.is_int(k), Py.is_str(k)))]
        node = it.alloc(fl._Node, {"v": content}, origin="FRESH")
        return lib.T(it, it.run_function(method_fn("_fix_sparse_arrays"), [node], {}))  # (an empty node is returned as it is: its content)

    def spec(it):
        it.elem_facts = [(keys, lambda k: z3.Or(Py.is_int(k), Py.is_str(k)))]
        return it.run_function(spec_fn(pspec, "compact_one"), [content, S.TRUE], {})

    ctx.equiv("_fix_sparse_arrays[node]", code, spec)


def method_fn(name):
    from pyvc.interp import lookup_function

    return lookup_function(getattr(fl, name))


# ------------------------------------------------------------------ _patch_obj against the recursive statement, per tree shape
# Bounded in ONE dimension only: the length of the location (<= 3) and, with it, the shape of the path
# through the existing tree (each ancestor position: absent / a projection node / a selected value).
# Everything else is symbolic: the tokens, the value, every other member of every node on the path.

def _is_node(it, fv, args, kwargs):
    v = args[0]
    o = v if isinstance(v, SymObj) else (it.deref(it.to_term(v)) if S.is_term(it.to_term(v)) else None)
    if isinstance(o, SymObj):
        return S.mk_bool(o.cls is fl._Node)
    if it.branch(Py.is_obj(it.to_term(v))):
        raise Unsupported("is_node of an unknown object")
    return S.FALSE


call_contract("specs.projection:is_node")(_is_node)


def _observe_nodes(it):
    out = []
    for ref in sorted(it.heap):
        o = it.heap[ref]
        if isinstance(o, SymObj) and o.cls is fl._Node:
            out.append(S.mk_tuple([S.mk_int(ref), o.fields["v"]]))
    return S.mk_tuple(out)


def _register_patch_obj(shape):
    depth = len(shape) + 1

    @contract(f"_patch_obj==place_at[{'/'.join(shape) or 'one token'}]", ("C19",), [Q + "_patch_obj"], replay=("patch_obj_replay", [list(shape)]), tier="quick")
    def _c(ctx, shape=shape, depth=depth):
        toks = [ctx.val(f"token{k}") for k in range(depth)]
        for t in toks:
            ctx.require(z3.Or(z3.And(Py.is_int(t), Py.i(t) >= 0), Py.is_str(t)))
        value = ctx.json("value")
        bases = []
        for k in range(len(shape) + 1):
            ks, vs = ctx.seq(f"node{k}_keys"), ctx.seq(f"node{k}_vals")
            ctx.require(z3.Length(ks) == z3.Length(vs))
            bases.append((ks, vs))
        others = [ctx.val(f"selected{k}") for k in range(len(shape))]
        for x in others:
            ctx.require(z3.Not(Py.is_obj(x)))

        def build(it):
            """The tree before the call: node k is on the path when shape[k-1] == 'node'."""
            it.elem_facts = [(ks, lambda e: z3.Or(Py.is_int(e), Py.is_str(e))) for ks, _ in bases]
            nodes = [it.alloc(fl._Node, {"v": Py.dict(*bases[0])}, origin="FRESH")]
            for k, what in enumerate(shape):
                cur = nodes[-1]
                content = cur.fields["v"]
                j = lib.dict_lookup(it, content, toks[k])
                if what == "absent":
                    it.assume(j < 0)
                    break
                # present: the member is a node of the path, or a selected value
                it.assume(j < 0)  # (base content without the member; the member is appended next)
                if what == "node":
                    child = it.alloc(fl._Node, {"v": Py.dict(*bases[k + 1])}, origin="FRESH")
                    member = it.obj_term(child)
                else:
                    child, member = None, others[k]
                cur.fields["v"] = Py.dict(z3.Concat(Py.keys(content), z3.Unit(toks[k])), z3.Concat(Py.vals(content), z3.Unit(member)))
                if child is None:
                    break
                nodes.append(child)
            return nodes[0]

        def code(it):
            root = build(it)
            r = it.run_function(method_fn("_patch_obj"), [S.mk_tuple(toks), root, value], {})
            return S.mk_tuple([it.to_term(r), _observe_nodes(it)])

        def spec(it):
            root = build(it)
            r = it.run_function(spec_fn(pspec, "place_at"), [root, S.mk_tuple(toks), value], {})
            return S.mk_tuple([it.to_term(r), _observe_nodes(it)])

        ctx.equiv("_patch_obj", code, spec)


for _shape in [(), ("absent",), ("node",), ("value",), ("absent", "absent"), ("value", "absent"), ("node", "absent"), ("node", "node"), ("node", "value")]:
    _register_patch_obj(_shape)

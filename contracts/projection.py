"""C19: the per-match skeleton of `Query.select` (`Query._select`) against the statement over the
relative matches; `_patch_obj` / `_fix_sparse_arrays` appear through abstract contracts here (recorded
effects) and are contracted on their own below where the engine reaches them."""
from __future__ import annotations

import z3

import specs.projection as pspec
from contracts.common import env_obj, match_facts, method, mod, no_foreign_writes, spec_fn
from contracts.paths import _abstract_path
from pyvc import lib
from pyvc import sorts as S
from pyvc.harness import call_contract, contract
from pyvc.sorts import Py

fl = mod("jsonpath.fluent_api")
Q = "jsonpath.fluent_api:"


def _place(it, fv, args, kwargs):
    it.trace.append(("effect", "place", lib.T(it, args[0]), lib.T(it, args[2])))
    it.assumed.append("contract:_patch_obj / place (abstract: recorded as an effect in this obligation)")
    return S.NONE


def _compacted(it, fv, args, kwargs):
    it.trace.append(("effect", "compacted"))
    return S.mk_str("<the compaction of what was placed>")


def _new_node(it, fv, args, kwargs):
    return it.alloc(fl._Node, {"v": Py.dict(S.EmptySeq, S.EmptySeq)}, origin="FRESH")


call_contract("jsonpath.fluent_api:_patch_obj")(_place)
call_contract("specs.projection:place")(_place)
call_contract("jsonpath.fluent_api:_fix_sparse_arrays")(_compacted)
call_contract("specs.projection:compacted")(_compacted)
call_contract("specs.projection:new_node")(_new_node)


def _setup(ctx):
    m = ctx.val("match")
    exprs = ctx.seq("expressions")
    ctx.require(match_facts(m))

    def mk(it):
        # expressions: query texts (compiled by the abstract environment) or compiled queries
        it.elem_facts = [(exprs, lambda e: z3.Or(Py.is_str(e), Py.is_obj(e)))]
        env = env_obj(it)
        env.fields["compile"] = lib.Builtin("compile", lambda it_, a, k: _abstract_path(it_, a[0]))
        q = it.alloc(fl.Query, {"_env": env, "_it": lib.new_iterator(it, S.EmptySeq)}, origin="FRESH")
        return q, env

    return m, exprs, mk


def _register(style):
    @contract(f"Query._select[{style}]==spec", ("C19",), [Q + "Query._select"])
    def _c(ctx, style=style):
        m, exprs, mk = _setup(ctx)
        proj = getattr(fl.Projection, style)

        def code(it):
            q, env = mk(it)
            return it.run_function(method(fl.Query, "_select"), [q, m, Py.tuple(exprs), it.lift(proj)], {})

        def spec(it):
            q, env = mk(it)
            return it.run_function(spec_fn(pspec, "select_one"), [env, m, Py.tuple(exprs), it.lift(proj)], {})

        ctx.equiv(f"_select[{style}]", code, spec, post=no_foreign_writes, compare_effects=True)


for _s in ("RELATIVE", "ROOT", "FLAT"):
    _register(_s)

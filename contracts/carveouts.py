"""Carve-outs of open known findings (DESIGN section 7).

A carve-out is a predicate over a contract's symbolic inputs that describes exactly the input
class of one recorded defect.  The obligations of that contract are verified under
`requires and not carve_out`, so any counter-model outside the recorded class is a new violation.
`witness_fails(finding)` re-runs the finding's concrete witness on the real code.
"""
from __future__ import annotations

import importlib

import z3

from pyvc import sorts as S
from pyvc.sorts import Py

CARVEOUTS = {}
WITNESSES = {}


def carveout(name):
    def deco(fn):
        CARVEOUTS[name] = fn
        return fn

    return deco


def witness(name):
    def deco(fn):
        WITNESSES[name] = fn
        return fn

    return deco


def witness_fails(finding):
    """True when the recorded witness still violates the property on the current tree."""
    fn = WITNESSES[finding["witness"]]
    return bool(fn())

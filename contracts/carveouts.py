"""Carve-outs of open known findings (DESIGN section 7).

A carve-out is a predicate over a contract's symbolic inputs that describes exactly the input
class of one recorded defect.  The obligations of that contract are verified under
`requires and not carve_out`, so any counter-model outside the recorded class is a new violation.
`witness_fails(finding)` re-runs the finding's concrete witness on the real code.
"""
from __future__ import annotations

import importlib

import z3

from pyvc import sorts as S
from pyvc.sorts import Py

CARVEOUTS = {}
WITNESSES = {}


def carveout(name):
    def deco(fn):
        CARVEOUTS[name] = fn
        return fn

    return deco


def witness(name):
    def deco(fn):
        WITNESSES[name] = fn
        return fn

    return deco


def witness_fails(finding):
    """True when the recorded witness still violates the property on the current tree."""
    fn = WITNESSES[finding["witness"]]
    return bool(fn())


# ------------------------------------------------------------------ C02 / C05: deep equality delegates to Python ==

@carveout("deep_eq_py_vs_rfc")
def _deep_eq(ctx):
    """Both operands are arrays (or both objects) on which Python's deep == and RFC equality
    disagree, i.e. they hold a boolean where the other holds an equal number at some depth."""
    l, r = ctx.inputs["left"], ctx.inputs["right"]
    return z3.Or(
        z3.And(Py.is_list(l), Py.is_list(r), S.seq_eq_py(Py.items(l), Py.items(r)) != S.seq_eq_rfc(Py.items(l), Py.items(r))),
        z3.And(Py.is_dict(l), Py.is_dict(r), S.dict_eq_py(l, r) != S.dict_eq_rfc(l, r)),
    )


@witness("compare_list_bool_number")
def _w_deep_eq():
    env = importlib.import_module("jsonpath.env").JSONPathEnvironment()
    import specs.rfc9535_filter as fspec

    return env.compare([1], "==", [True]) != fspec.rfc_compare([1], "==", [True])


# ------------------------------------------------------------------ C02: `$` inside a nested filter query

@carveout("nested_root_is_not_current")
def _nested_root(ctx):
    """The embedded relative query is started with the candidate as its own root: wrong exactly
    when the candidate is not the root of the query argument."""
    return ctx.inputs["root"] != ctx.inputs["current"]


@witness("nested_dollar_denotes_candidate")
def _w_nested_root():
    jp = importlib.import_module("jsonpath")
    doc = {"x": 2, "a": [{"b": [1, 2]}, {"b": [3]}]}
    # RFC 9535: `$` is the query argument at every depth -> the first element of a (b contains 2 == $.x)
    return jp.findall("$.a[?@.b[?@ == $.x]]", doc) != [{"b": [1, 2]}]

"""Carve-outs of open known findings (DESIGN section 7).

A carve-out is a predicate over a contract's symbolic inputs that describes exactly the input
class of one recorded defect.  The obligations of that contract are verified under
`requires and not carve_out`, so any counter-model outside the recorded class is a new violation.
`witness_fails(finding)` re-runs the finding's concrete witness on the real code.
"""
from __future__ import annotations

import importlib

import z3

from pyvc import sorts as S
from pyvc.sorts import Py

CARVEOUTS = {}
WITNESSES = {}


def carveout(name):
    def deco(fn):
        CARVEOUTS[name] = fn
        return fn

    return deco


def witness(name):
    def deco(fn):
        WITNESSES[name] = fn
        return fn

    return deco


def witness_fails(finding):
    """True when the recorded witness still violates the property on the current tree."""
    fn = WITNESSES[finding["witness"]]
    return bool(fn())


# ------------------------------------------------------------------ C02 / C05: deep equality delegates to Python ==

@carveout("deep_eq_py_vs_rfc")
def _deep_eq(ctx):
    """Both operands are arrays (or both objects) on which Python's deep == and RFC equality
    disagree, i.e. they hold a boolean where the other holds an equal number at some depth."""
    l, r = ctx.inputs["left"], ctx.inputs["right"]
    return z3.Or(
        z3.And(Py.is_list(l), Py.is_list(r), S.seq_eq_py(Py.items(l), Py.items(r)) != S.seq_eq_rfc(Py.items(l), Py.items(r))),
        z3.And(Py.is_dict(l), Py.is_dict(r), S.dict_eq_py(l, r) != S.dict_eq_rfc(l, r)),
    )


@witness("compare_list_bool_number")
def _w_deep_eq():
    env = importlib.import_module("jsonpath.env").JSONPathEnvironment()
    import specs.rfc9535_filter as fspec

    return env.compare([1], "==", [True]) != fspec.rfc_compare([1], "==", [True])


# ------------------------------------------------------------------ C02: `$` inside a nested filter query

@carveout("nested_root_is_not_current")
def _nested_root(ctx):
    """The embedded relative query is started with the candidate as its own root: wrong exactly
    when the candidate is not the root of the query argument.  Implemented as a spec switch (not as
    an excluded input region, which would leave only `current == root` under contract): under the
    carve-out the spec's relative query takes its start node as the root too - the finding, and nothing
    else, built in - so every candidate, strings and scalars included, stays covered."""
    return z3.BoolVal(False)


_nested_root.flag = "nested_root_is_current"


@witness("nested_dollar_denotes_candidate")
def _w_nested_root():
    jp = importlib.import_module("jsonpath")
    doc = {"x": 2, "a": [{"b": [1, 2]}, {"b": [3]}]}
    # RFC 9535: `$` is the query argument at every depth -> the first element of a (b contains 2 == $.x)
    return jp.findall("$.a[?@.b[?@ == $.x]]", doc) != [{"b": [1, 2]}]


# ------------------------------------------------------------------ C05: `test` compares with Python ==

@carveout("test_py_eq_vs_json_eq")
def _test_eq(ctx):
    """Inputs on which Python's == and JSON equality disagree (a boolean against an equal number,
    at any depth).  Implemented as a library-assumption switch: under the carve-out the model of
    `==` at the comparison is JSON equality."""
    return z3.BoolVal(False)


_test_eq.flag = "py_eq_is_rfc_eq"


@witness("patch_test_true_equals_one")
def _w_test_eq():
    pm = importlib.import_module("jsonpath.patch")
    try:
        pm.apply([{"op": "test", "path": "/a", "value": 1}], {"a": True})
    except pm.JSONPatchTestFailure:
        return False
    return True  # the test passed although true is not 1


# ------------------------------------------------------------------ C05: negative array indices in patch targets

def _negative_token(t):
    return z3.Or(
        z3.And(Py.is_int(t), Py.i(t) < 0),
        z3.And(Py.is_str(t), z3.InRe(Py.s(t), z3.Concat(z3.Re("-"), S.NZDIGIT, z3.Star(S.DIGIT)))),
    )


@carveout("patch_negative_index")
def _neg_index(ctx):
    """The last token of the operation's path is a negative integer (the pointer extension),
    which RFC 6902 does not accept as an array index."""
    toks = [ctx.inputs[k] for k in ("last", "src_last", "dst_last") if k in ctx.inputs]
    if not toks:
        return z3.BoolVal(False)
    return z3.Or(*[_negative_token(t) for t in toks])


@witness("patch_remove_negative_index")
def _w_neg_index():
    pm = importlib.import_module("jsonpath.patch")
    try:
        return pm.apply([{"op": "remove", "path": "/-1"}], [1, 2]) == [1]
    except pm.JSONPatchError:
        return False

"""C09: write frames (no store into the document, the filter context or the compiled query during
evaluation), cache-tree freshness and unobservability of caching."""
from __future__ import annotations

import z3

import contracts.filternodes as FN
import contracts.selectors as SEL
from contracts.common import env_obj, matches_iter, method, mod
from pyvc import lib
from pyvc import sorts as S
from pyvc.harness import contract
from pyvc.interp import ClassVal, SymObj
from pyvc.sorts import Py

flt = mod("jsonpath.filter")
sel = mod("jsonpath.selectors")


from contracts.common import no_foreign_writes, write_items  # noqa: E402,F401


def _register_selector_frame(clsname, mk):
    cls = getattr(sel, clsname)

    @contract(f"{clsname}.resolve:frame", ("C09",), [f"jsonpath.selectors:{clsname}.resolve", f"jsonpath.selectors:{clsname}.resolve_async"])
    def _c(ctx, cls=cls, mk=mk):
        ms = ctx.seq("matches")
        mk_self, _ = mk(ctx)
        for name in ("resolve", "resolve_async"):
            ctx.check_outcomes(f"{cls.__name__}.{name}:frame", lambda it, name=name: it.call_function(method(cls, name), [mk_self(it), matches_iter(ms)], {}), no_foreign_writes)


for _n, (_mk, _sp, _props) in SEL.SELECTORS.items():
    _register_selector_frame(_n, _mk)


@contract("Filter.resolve:frame", ("C09",), ["jsonpath.selectors:Filter.resolve", "jsonpath.selectors:Filter.resolve_async"])
def _filter_frame(ctx):
    ms, mk = FN._filter_setup(ctx)
    for name in ("resolve", "resolve_async"):
        ctx.check_outcomes(f"Filter.{name}:frame", lambda it, name=name: it.call_function(method(sel.Filter, name), [mk(it)[0], matches_iter(ms)], {}), no_foreign_writes)


# ------------------------------------------------------------------ cache tree: fresh, and observationally the expression itself

def leaf(it, kind, name):
    """A leaf expression of the given volatility class with an abstract evaluate."""
    vol = {"volatile": S.TRUE, "cacheable": S.FALSE}[kind]
    cls = flt.SelfPath if kind == "volatile" else flt.RootPath
    o = it.alloc(cls, {"volatile": vol, "path": it.alloc(mod("jsonpath.path").JSONPath, {"selectors": S.mk_tuple([]), "env": env_obj(it), "fake_root": S.FALSE}, origin="QUERY")}, origin="QUERY")
    o.abstract = True  # evaluate() is the abstract contract, children()/set_children() are the real methods
    o.fields["abs_id"] = it.obj_term(o)
    return o


SHAPES = {
    "cmp(@,$)": lambda it: it.call(ClassVal(flt.InfixExpression), [leaf(it, "volatile", "l"), S.mk_str("=="), leaf(it, "cacheable", "r")]),
    "cmp($,$)": lambda it: it.call(ClassVal(flt.InfixExpression), [leaf(it, "cacheable", "l"), S.mk_str("<"), leaf(it, "cacheable", "r")]),
    "and(@,cmp(@,$))": lambda it: it.call(
        ClassVal(flt.InfixExpression),
        [leaf(it, "volatile", "a"), S.mk_str("&&"), it.call(ClassVal(flt.InfixExpression), [leaf(it, "volatile", "l"), S.mk_str("<"), leaf(it, "cacheable", "r")])],
    ),
    "not(cmp($,$))": lambda it: it.call(ClassVal(flt.PrefixExpression), [S.mk_str("!"), it.call(ClassVal(flt.InfixExpression), [leaf(it, "cacheable", "l"), S.mk_str("=="), leaf(it, "cacheable", "r")])]),
    "or($,@)": lambda it: it.call(ClassVal(flt.InfixExpression), [leaf(it, "cacheable", "l"), S.mk_str("||"), leaf(it, "volatile", "r")]),
}


def heap_snapshot(it):
    """(ref, field, term) for every QUERY-origin object: what the compiled query looks like."""
    out = []
    for ref, o in sorted(it.heap.items()):
        if isinstance(o, SymObj) and o.origin == "QUERY":
            for k, v in sorted(o.fields.items()):
                if S.is_term(v):
                    out.append((ref, k, v))
                elif isinstance(v, SymObj):
                    out.append((ref, k, it.obj_term(v)))
    return out


def _register_cache_tree(shape):
    @contract(f"BooleanExpression.cache_tree[{shape}]", ("C09",), ["jsonpath.filter:BooleanExpression.cache_tree", "jsonpath.filter:CachingFilterExpression.evaluate", "jsonpath.filter:CachingFilterExpression.__init__"])
    def _c(ctx, shape=shape):
        ctxv1 = FN.ctx_inputs(ctx)
        cur2, key2 = ctx.json("current2"), ctx.val("current_key2")
        ctx.require(z3.Or(Py.is_none(key2), Py.is_str(key2), z3.And(Py.is_int(key2), Py.i(key2) >= 0)))
        ctxv2 = (cur2, ctxv1[1], ctxv1[2], key2)  # a second candidate of the same resolution: same root and extra context

        def run(it):
            it.abstract_compare = True
            it.inline_cache_tree = True
            it.no_pre_obligations = True  # operand preconditions of compare/is_truthy belong to the C02 node contracts
            for o in it.heap.values():
                pass
            expr = SHAPES[shape](it)
            for o in list(it.heap.values()):
                if isinstance(o, SymObj) and o.cls.__module__ == "jsonpath.filter":
                    o.origin = "QUERY"  # everything built so far is the compiled query
            boolexpr = it.alloc(flt.BooleanExpression, {"expression": expr, "volatile": S.TRUE}, origin="QUERY")
            before = heap_snapshot(it)
            # non-volatile sub-expressions read only (root, extra context): their abstract evaluate
            # agrees on the two contexts (the `reads` contract, by induction over the tree)
            for o in list(it.heap.values()):
                if isinstance(o, SymObj) and o.cls in (flt.RootPath, flt.SelfPath):
                    a = lib.expr_evaluate(o.fields["abs_id"], FN.ctx_term(ctxv1))
                    b = lib.expr_evaluate(o.fields["abs_id"], FN.ctx_term(ctxv2))
                    if o.cls is flt.RootPath:
                        it.assume(a == b)
                    # the caching wrapper treats values opaquely; restricting the leaves' values to
                    # (arbitrary) ints keeps the four evaluations below from forking on value kinds -
                    # the unwrapping of nodelists is InfixExpression.evaluate's own contract (C02)
                    it.assume(Py.is_int(a))
                    it.assume(Py.is_int(b))
            tree = it.run_function(method(flt.BooleanExpression, "cache_tree"), [boolexpr], {})
            after = heap_snapshot(it)
            unchanged = len(before) == len(after) and all(x[:2] == y[:2] and z3.eq(x[2], y[2]) for x, y in zip(before, [a for a in after if a[0] in {b[0] for b in before}]))
            c1, c2 = FN.filter_context(it, ctxv1), FN.filter_context(it, ctxv2)
            # one resolution: the cached tree is evaluated for candidate 1, then candidate 2;
            # the plain expression is evaluated for the same two candidates
            r1 = it.call_method(it.getattr(tree, "expression"), "evaluate", [c1])
            r2 = it.call_method(it.getattr(tree, "expression"), "evaluate", [c2])
            p1 = it.call_method(expr, "evaluate", [c1])
            p2 = it.call_method(expr, "evaluate", [c2])
            return S.mk_tuple([S.mk_bool(unchanged), S.mk_bool(lib.T(it, r1) == lib.T(it, p1)), S.mk_bool(lib.T(it, r2) == lib.T(it, p2))])

        ctx.equiv(f"cache_tree[{shape}]", run, lambda it: S.mk_tuple([S.TRUE, S.TRUE, S.TRUE]))
        ctx.check_outcomes(f"cache_tree[{shape}]:frame", run, no_foreign_writes, ns="f")


for _shape in SHAPES:
    _register_cache_tree(_shape)

"""Contracts of the filter expression nodes of jsonpath/filter.py (C02, C13) and their
evaluate_async twins (C08).  Children are abstract: `child.evaluate(ctx)` is the uninterpreted
contract of FilterExpression.evaluate, so each node class is verified for every sub-expression
(structural induction over the expression tree)."""
from __future__ import annotations

import z3

import specs.rfc9535_filter as fspec
from contracts.common import env_obj, method, mod, no_foreign_writes, spec_fn
from pyvc import lib
from pyvc import sorts as S
from pyvc.harness import call_contract, contract
from pyvc.interp import ClassVal
from pyvc.sorts import Py

flt = mod("jsonpath.filter")
selm = mod("jsonpath.selectors")
envm = mod("jsonpath.env")
F = "jsonpath.filter:"

COMPARISON_OPS = ("==", "!=", "<", ">", "<=", ">=", "<>", "in", "contains", "=~")
LOGICAL_OPS = ("&&", "||")


def operand_ok(v):
    return z3.Or(S.json_value(v), Py.is_undef(v), z3.And(Py.is_nodelist(v), z3.Length(Py.nitems(v)) == 0))


def logical_ok(v):
    return z3.Or(Py.is_bool(v), Py.is_nodelist(v), Py.is_undef(v))


@call_contract("jsonpath.env:JSONPathEnvironment.compare")
def _compare_contract(it, fv, args, kwargs):
    """Modular use of compare(): its contract (contracts/envfilter.py) is `== ext_compare`,
    under the operand preconditions, which are obligations of the caller."""
    _, left, op, right = args
    l, r = lib.T(it, left), lib.T(it, right)
    opt = lib.T(it, op)
    is_logical = z3.Or(Py.s(opt) == "&&", Py.s(opt) == "||")
    it.obligate("compare.requires(left)", z3.If(is_logical, logical_ok(l), z3.Or(operand_ok(l), Py.is_pattern(l))))
    it.obligate("compare.requires(right)", z3.If(is_logical, logical_ok(r), z3.Or(operand_ok(r), Py.is_pattern(r))))
    if getattr(it, "abstract_compare", False):
        # compare is used through its contract: a function of its arguments
        return compare_abs(l, opt, r)
    it.assumed.append("contract:JSONPathEnvironment.compare == ext_compare (proved in contracts/envfilter.py)")
    return it.run_function(spec_fn(fspec, "ext_compare"), [l, opt, r], {})


@call_contract("jsonpath.env:JSONPathEnvironment.is_truthy")
def _is_truthy_contract(it, fv, args, kwargs):
    x = lib.T(it, args[1])
    it.obligate("is_truthy.requires", logical_ok(x))
    it.assumed.append("contract:JSONPathEnvironment.is_truthy == rfc_test (proved in contracts/envfilter.py)")
    return it.run_function(spec_fn(fspec, "rfc_test"), [x], {})


compare_abs = z3.Function("compare_abs", Py, Py, Py, Py)


def abstract_expr(it, name):
    """An arbitrary sub-expression: only its abstract evaluate contract and `volatile` are known."""
    return it.alloc(flt.FilterExpression, {"volatile": Py.bool(z3.Bool(f"{name}.volatile"))}, origin="QUERY", abstract=True)


def filter_context(it, ctxv):
    cur, root, extra, key = ctxv
    return it.alloc(
        selm.FilterContext,
        {"env": env_obj(it), "current": cur, "root": root, "extra_context": extra, "current_key": key},
        origin="FRESH",
    )


def ctx_inputs(ctx):
    cur, root = ctx.json("current"), ctx.json("root")
    extra = ctx.val("extra_context")
    key = ctx.val("current_key")
    ctx.require(Py.is_dict(extra), S.json_value(extra), z3.Or(Py.is_none(key), Py.is_str(key), z3.And(Py.is_int(key), Py.i(key) >= 0)))
    # the root of the query argument is not JSON text (load_data would parse it a second time;
    # only reachable through the fake root on a document that is itself a JSON-looking string)
    ctx.require(z3.Not(Py.is_str(root)))
    return (cur, root, extra, key)


def ctx_term(ctxv):
    return S.mk_tuple(list(ctxv))


def _twin(name, props, funcs, mk_self_and_ctx):
    pass


# ------------------------------------------------------------------ InfixExpression

def _infix_setup(ctx, concrete_op=None, abstract_compare=False):
    ctxv = ctx_inputs(ctx)
    if concrete_op is None:
        op = ctx.str("operator")
        ctx.require(z3.Or(*[op == o for o in COMPARISON_OPS + LOGICAL_OPS]))
        is_logical = z3.Or(op == "&&", op == "||")
    else:
        op = z3.StringVal(concrete_op)
        is_logical = z3.BoolVal(concrete_op in LOGICAL_OPS)

    def mk(it):
        left, right = abstract_expr(it, "left"), abstract_expr(it, "right")
        # well-typedness (proved at compile time, C07): comparison operands are singular queries,
        # literals or ValueType function results; logical operands are tests / LogicalType.
        for e in (left, right):
            v = lib.expr_evaluate(it.obj_term(e), ctx_term(ctxv))
            it.assume(lib.value_kind_facts(v))
            it.assume(z3.If(is_logical, logical_ok(v), z3.Or(S.json_value(v), Py.is_undef(v), Py.is_pattern(v), z3.And(Py.is_nodelist(v), z3.Length(Py.nitems(v)) <= 1))))
        it.abstract_compare = abstract_compare
        self = it.call(ClassVal(flt.InfixExpression), [left, Py.str(op), right])
        return self, filter_context(it, ctxv)

    return mk


@call_contract("specs.rfc9535_filter:ext_compare")
def _ext_compare_contract(it, fv, args, kwargs):
    if getattr(it, "abstract_compare", False):
        return compare_abs(lib.T(it, args[0]), lib.T(it, args[1]), lib.T(it, args[2]))
    return it.run_function(fv, args, kwargs)


@contract("InfixExpression.evaluate==spec", ("C02", "C13", "C09"), [F + "InfixExpression.evaluate", F + "InfixExpression.__init__"])
def _infix(ctx):
    """Modular: compare() appears through its contract only (an uninterpreted function of its
    arguments on both sides + its operand preconditions as obligations of this caller); what is
    proved here is the unwrapping of singular queries for comparison operators only, the operand
    order, and that the operands meet compare's precondition."""
    mk = _infix_setup(ctx, None, abstract_compare=True)

    def code(it):
        self, c = mk(it)
        return it.run_function(method(flt.InfixExpression, "evaluate"), [self, c], {})

    def spec(it):
        self, c = mk(it)
        return it.run_function(spec_fn(fspec, "infix_evaluate"), [self, c], {})

    ctx.equiv("InfixExpression.evaluate", code, spec, post=no_foreign_writes)


@contract("InfixExpression.evaluate_async==evaluate", ("C08",), [F + "InfixExpression.evaluate", F + "InfixExpression.evaluate_async"])
def _infix_twin(ctx):
    mk = _infix_setup(ctx, None, abstract_compare=True)
    ctx.equiv(
        "InfixExpression.evaluate_async",
        lambda it: it.run_function(method(flt.InfixExpression, "evaluate_async"), list(mk(it)), {}),
        lambda it: it.run_function(method(flt.InfixExpression, "evaluate"), list(mk(it)), {}),
    )


# ------------------------------------------------------------------ PrefixExpression / BooleanExpression

def _unary_setup(ctx, cls, field):
    ctxv = ctx_inputs(ctx)

    def mk(it):
        child = abstract_expr(it, "child")
        v = lib.expr_evaluate(it.obj_term(child), ctx_term(ctxv))
        it.assume(lib.value_kind_facts(v))
        it.assume(logical_ok(v))  # well-typedness: the operand of ! / the filter expression is a test or LogicalType
        if cls is flt.PrefixExpression:
            self = it.call(ClassVal(cls), [S.mk_str("!"), child])
        else:
            self = it.call(ClassVal(cls), [child])
        return self, filter_context(it, ctxv)

    return mk


def _register_unary(cls, specname, props):
    n = cls.__name__

    @contract(f"{n}.evaluate==spec", tuple(props) + ("C09",), [F + f"{n}.evaluate"] + ([F + f"{n}._evaluate"] if n == "PrefixExpression" else []))
    def _c(ctx, cls=cls, specname=specname):
        mk = _unary_setup(ctx, cls, None)
        ctx.equiv(
            f"{cls.__name__}.evaluate",
            lambda it: it.run_function(method(cls, "evaluate"), list(mk(it)), {}),
            lambda it: it.run_function(spec_fn(fspec, specname), list(mk(it)), {}),
            post=no_foreign_writes,
        )

    @contract(f"{n}.evaluate_async==evaluate", ("C08",), [F + f"{n}.evaluate", F + f"{n}.evaluate_async"])
    def _t(ctx, cls=cls):
        mk = _unary_setup(ctx, cls, None)
        ctx.equiv(
            f"{cls.__name__}.evaluate_async",
            lambda it: it.run_function(method(cls, "evaluate_async"), list(mk(it)), {}),
            lambda it: it.run_function(method(cls, "evaluate"), list(mk(it)), {}),
        )


_register_unary(flt.PrefixExpression, "prefix_evaluate", ("C02",))
_register_unary(flt.BooleanExpression, "boolean_evaluate", ("C02",))


# ------------------------------------------------------------------ CurrentKey (C13)

@contract("CurrentKey.evaluate==spec", ("C13",), [F + "CurrentKey.evaluate", F + "CurrentKey.evaluate_async"])
def _current_key(ctx):
    ctxv = ctx_inputs(ctx)

    def mk(it):
        return it.alloc(flt.CurrentKey, {"volatile": S.TRUE}, origin="QUERY"), filter_context(it, ctxv)

    ctx.equiv(
        "CurrentKey.evaluate",
        lambda it: it.run_function(method(flt.CurrentKey, "evaluate"), list(mk(it)), {}),
        lambda it: it.run_function(spec_fn(fspec, "current_key_evaluate"), [mk(it)[1]], {}),
    )
    ctx.equiv(
        "CurrentKey.evaluate_async",
        lambda it: it.run_function(method(flt.CurrentKey, "evaluate_async"), list(mk(it)), {}),
        lambda it: it.run_function(method(flt.CurrentKey, "evaluate"), list(mk(it)), {}),
    )


# ------------------------------------------------------------------ embedded queries: SelfPath, RootPath, FilterContextPath

pathm = mod("jsonpath.path")
apply_query = z3.Function("apply_query", Py, S.SeqPy, S.SeqPy)  # fold of selector.resolve over the segments


def apply_query_term(it, sels, m):
    """apply_query(selectors, [m]) with two facts that follow from its definition (a fold of resolve):
    no segment -> the node itself; and the lemma `X.resolve(scalar)==[]` proved per selector class
    (every segment yields nothing on a string, number, boolean or null, hence so does the fold)."""
    t = apply_query(sels, z3.Unit(m))
    obj = Py.mobj(m)
    scalar = z3.Not(z3.Or(Py.is_list(obj), Py.is_dict(obj)))
    it.assume(z3.Implies(S.py_len(sels) == 0, t == z3.Unit(m)))
    it.assume(z3.Implies(z3.And(scalar, S.py_len(sels) > 0), t == S.EmptySeq))
    it.assumed.append("lemma:every selector yields nothing on a scalar (obligations X.resolve(scalar)==[])")
    return t


def root_match_term(it, path, data, filter_context, root):
    env = it.getattr(path, "env")
    fake = it.getattr(path, "fake_root")
    obj = z3.If(it.truth(fake), S.mk_list([data]), data)
    return Py.match(obj, S.mk_tuple([]), Py.s(it.to_term(it.getattr(env, "root_token"))), root, filter_context, S.NONE)


@call_contract("jsonpath.path:JSONPath.finditer")
def _finditer_contract(it, fv, args, kwargs):
    """JSONPath.finditer(data, filter_context=fc): the segments folded over the root node
    [match(obj=data, root=data, filter_context=fc or {})] (contract proved in contracts/paths.py)."""
    path, data = args[0], lib.T(it, args[1])
    fc = kwargs.get("filter_context", S.NONE)
    fc = lib.T(it, fc)
    fc = z3.If(S.truthy(fc), fc, Py.dict(S.EmptySeq, S.EmptySeq))
    # load_data is the identity on parsed JSON containers / non-text primitives
    it.obligate("finditer.requires(data is not JSON text / a file)", z3.Not(Py.is_str(data)))
    from pyvc.interp import GenVal

    it.assumed.append("contract:JSONPath.finditer == fold of resolve over the segments from the root node")
    m = root_match_term(it, path, data, fc, data)
    nodes = apply_query_term(it, it.to_term(it.getattr(path, "selectors")), m)
    from contracts.common import match_facts

    it.elem_facts = getattr(it, "elem_facts", []) + [(nodes, match_facts)]  # what a query yields are match records
    return GenVal([("yieldfrom", nodes)])


call_contract("jsonpath.path:JSONPath.finditer_async")(_finditer_contract)


@call_contract("specs.rfc9535_filter:query_nodes")
def _query_nodes_contract(it, fv, args, kwargs):
    path, start, root, fc = args[0], lib.T(it, args[1]), lib.T(it, args[2]), lib.T(it, args[3])
    from pyvc.interp import GenVal

    if getattr(it, "flags", {}).get("nested_root_is_current"):
        # known finding C02-nested-root-identifier built into the spec (contracts listed there only): an embedded
        # query started at an array or object takes that candidate as its root
        root = z3.If(z3.Or(Py.is_list(start), Py.is_dict(start)), start, root)


    m = root_match_term(it, path, start, fc, root)
    nodes = apply_query_term(it, it.to_term(it.getattr(path, "selectors")), m)
    from contracts.common import match_facts

    it.elem_facts = getattr(it, "elem_facts", []) + [(nodes, match_facts)]
    return GenVal([("yieldfrom", nodes)])


def _path_setup(ctx, cls):
    ctxv = ctx_inputs(ctx)
    sels = ctx.seq("selectors")
    fake = ctx.bool("fake_root")
    ctx.require(z3.Not(fake))  # the parser never builds an embedded query with the fake root

    def mk(it):
        env = env_obj(it)
        path = it.alloc(pathm.JSONPath, {"env": env, "selectors": Py.tuple(sels), "fake_root": Py.bool(fake)}, origin="QUERY")
        self = it.alloc(cls, {"path": path, "volatile": S.mk_bool(cls is flt.SelfPath)}, origin="QUERY")
        return self, filter_context(it, ctxv)

    return mk


def _register_path(cls, specname, props):
    n = cls.__name__

    @contract(f"{n}.evaluate==spec", tuple(props) + ("C09",), [F + f"{n}.evaluate"])
    def _c(ctx, cls=cls, specname=specname):
        mk = _path_setup(ctx, cls)
        ctx.equiv(
            f"{cls.__name__}.evaluate",
            lambda it: it.run_function(method(cls, "evaluate"), list(mk(it)), {}),
            lambda it: it.run_function(spec_fn(fspec, specname), list(mk(it)), {}),
            post=no_foreign_writes,
        )

    @contract(f"{n}.evaluate_async==evaluate", ("C08",), [F + f"{n}.evaluate", F + f"{n}.evaluate_async"])
    def _t(ctx, cls=cls):
        mk = _path_setup(ctx, cls)
        ctx.equiv(
            f"{cls.__name__}.evaluate_async",
            lambda it: it.run_function(method(cls, "evaluate_async"), list(mk(it)), {}),
            lambda it: it.run_function(method(cls, "evaluate"), list(mk(it)), {}),
        )


_register_path(flt.SelfPath, "self_path_evaluate", ("C02", "C13"))
_register_path(flt.RootPath, "root_path_evaluate", ("C02", "C13"))
_register_path(flt.FilterContextPath, "filter_context_path_evaluate", ("C13",))


# ------------------------------------------------------------------ Filter.resolve (2.3.5)

import specs.rfc9535 as nspec  # noqa: E402
from contracts.common import matches_iter  # noqa: E402


@call_contract("jsonpath.filter:BooleanExpression.cache_tree")
def _cache_tree_contract(it, fv, args, kwargs):
    """ASSUMED here, proved in C09: the caching copy evaluates exactly as the expression itself."""
    if getattr(it, "inline_cache_tree", False):
        return it.run_function(fv, args, kwargs)
    it.assumed.append("contract:BooleanExpression.cache_tree() is observationally the expression itself (C09)")
    return args[0]


def _filter_setup(ctx):
    ms = ctx.seq("matches")
    caching = ctx.bool("filter_caching")
    cacheable = ctx.bool("cacheable_nodes")

    def mk(it):
        env = env_obj(it, filter_caching=Py.bool(caching))
        expr = it.alloc(flt.BooleanExpression, {"volatile": Py.bool(z3.Bool("expr.volatile"))}, origin="QUERY", abstract=True)
        self = it.alloc(selm.Filter, {"env": env, "expression": expr, "cacheable_nodes": Py.bool(cacheable), "token": S.NONE}, origin="QUERY")
        return self, expr, env

    return ms, mk


@contract("Filter.resolve==spec", ("C02", "C01", "C03", "C13"), ["jsonpath.selectors:Filter.resolve", "jsonpath.selectors:FilterContext.__init__"])
def _filter_resolve(ctx):
    ms, mk = _filter_setup(ctx)

    def code(it):
        self, expr, env = mk(it)
        return it.call_function(method(selm.Filter, "resolve"), [self, matches_iter(ms)], {})

    def spec(it):
        self, expr, env = mk(it)
        return it.call_function(spec_fn(fspec, "filter_segment"), [expr, env, matches_iter(ms)], {})

    ctx.equiv("Filter.resolve", code, spec)


@contract("Filter.resolve_async==resolve", ("C08",), ["jsonpath.selectors:Filter.resolve", "jsonpath.selectors:Filter.resolve_async"])
def _filter_twin(ctx):
    ms, mk = _filter_setup(ctx)
    ctx.equiv(
        "Filter.resolve_async",
        lambda it: it.call_function(method(selm.Filter, "resolve_async"), [mk(it)[0], matches_iter(ms)], {}),
        lambda it: it.call_function(method(selm.Filter, "resolve"), [mk(it)[0], matches_iter(ms)], {}),
    )


# ------------------------------------------------------------------ FunctionExtension + the five standard functions (2.4)

fx = mod("jsonpath.function_extensions")
STD = {"length": ("Length", 1), "count": ("Count", 1), "value": ("Value", 1), "match": ("Match", 2), "search": ("Search", 2)}


def _function_setup(ctx, name):
    ctxv = ctx_inputs(ctx)
    clsname, arity = STD[name]
    cls = getattr(fx, clsname)

    def mk(it):
        func = it.alloc(cls, {}, origin="QUERY")
        env = env_obj(it, function_extensions=it.to_term({S.mk_str(name): it.obj_term(func)}) if False else Py.dict(S.mk_seq([S.mk_str(name)]), S.mk_seq([it.obj_term(func)])))
        args = []
        for i in range(arity):
            a = abstract_expr(it, f"arg{i}")
            v = lib.expr_evaluate(it.obj_term(a), ctx_term(ctxv))
            it.assume(lib.value_kind_facts(v))
            types = cls.arg_types
            if types[i].name == "NODES":
                it.assume(Py.is_nodelist(v))  # well-typedness: a NodesType parameter is given a query
            else:
                # ValueType parameter: a literal, a singular query or a ValueType function result
                it.assume(z3.Or(S.json_value(v), Py.is_undef(v), z3.And(Py.is_nodelist(v), z3.Length(Py.nitems(v)) <= 1)))
            args.append(a)
        self = it.alloc(flt.FunctionExtension, {"name": S.mk_str(name), "args": it.to_term([it.obj_term(a) for a in args]), "volatile": S.TRUE}, origin="QUERY")
        c = filter_context(it, ctxv)
        c.fields["env"] = env
        return self, c

    return mk


def _register_function(name):
    clsname = STD[name][0]
    funcs = [F + "FunctionExtension.evaluate", F + "FunctionExtension._unpack_node_lists", f"jsonpath.function_extensions.{name}:{clsname}.__call__"]

    @contract(f"FunctionExtension.evaluate[{name}]==spec", ("C02", "C09"), funcs, replay=("function_replay", [name]))
    def _c(ctx, name=name):
        mk = _function_setup(ctx, name)
        ctx.equiv(
            f"FunctionExtension.evaluate[{name}]",
            lambda it: it.run_function(method(flt.FunctionExtension, "evaluate"), list(mk(it)), {}),
            lambda it: it.run_function(spec_fn(fspec, "function_evaluate"), list(mk(it)), {}),
            post=no_foreign_writes,
        )

    @contract(f"FunctionExtension.evaluate_async[{name}]==evaluate", ("C08",), funcs + [F + "FunctionExtension.evaluate_async"])
    def _t(ctx, name=name):
        mk = _function_setup(ctx, name)
        ctx.equiv(
            f"FunctionExtension.evaluate_async[{name}]",
            lambda it: it.run_function(method(flt.FunctionExtension, "evaluate_async"), list(mk(it)), {}),
            lambda it: it.run_function(method(flt.FunctionExtension, "evaluate"), list(mk(it)), {}),
        )


for _name in STD:
    _register_function(_name)

"""Sidecar contracts for the functions of /repo/jsonpath (the repository files are untouched)."""
import importlib

MODULES = ["contracts.selectors", "contracts.envfilter", "contracts.filternodes", "contracts.pointer", "contracts.fluent", "contracts.patch", "contracts.patchbuild", "contracts.paths", "contracts.compound", "contracts.purity", "contracts.errors", "contracts.gate", "contracts.typing", "contracts.cli", "contracts.projection"]


def load():
    for m in MODULES:
        importlib.import_module(m)

"""Builders for symbolic inputs shared by the contracts."""
from __future__ import annotations

import ast
import importlib

import z3

from pyvc import lib
from pyvc import sorts as S
from pyvc.harness import call_contract
from pyvc.interp import FuncVal, IterSpec, lookup_function
from pyvc.sorts import Py


def mod(name):
    return importlib.import_module(name)


@call_contract("jsonpath.serialize:canonical_string")
def _canonical_string(it, fv, args, kwargs):
    """ASSUMED here (string law is the bounded part of C03): an uninterpreted function of the name."""
    s = lib.T(it, args[0])
    if not it.branch(Py.is_str(s)):
        it.raise_(TypeError, "canonical_string of non-str")
    it.assumed.append("contract:canonical_string(uninterpreted; string law bounded in C03)")
    return Py.str(S.canon_str(Py.s(s)))


match_facts = lib.MATCH_RECORD  # one predicate object: element invariants are compared by identity


def matches_iter(ms):
    """The `matches` argument of a selector: an arbitrary finite sequence of match records."""
    return IterSpec(
        ("seq", ms),
        lambda i: ms[i],
        lambda i: z3.And(i >= 0, i < z3.Length(ms), match_facts(ms[i])),
        z3.Length(ms),
    )


def env_obj(it, **fields):
    envm = mod("jsonpath.env")
    return it.alloc(envm.JSONPathEnvironment, dict(fields), origin="QUERY")


def method(cls, name):
    return lookup_function(cls.__dict__[name])


def spec_fn(module, name):
    return lookup_function(getattr(module, name))


# ---- write frames (C09, C15): stores recorded by the interpreter in the trace

def write_items(trace):
    out = []
    for item in trace:
        if item[0] in ("write", "mutate"):
            out.append(item)
        elif item[0] == "loop":
            for alt in item[3]:
                out.extend(write_items(alt["trace"]))
    return out


def no_foreign_writes(o):
    """Postcondition: the only stores are into objects allocated by this call (and match.children)."""
    bad = [w for w in write_items(o.trace) if not (w[0] == "mutate" and w[2] == "FRESH")]
    if bad:
        return [("frame", [], z3.BoolVal(False), f"writes outside the frame: {bad[:3]}")]
    return [("frame", [], z3.BoolVal(True), "no store into DOC / CTX / QUERY objects on this path")]

"""Contracts of jsonpath/fluent_api.py: Query operations against list slicing (C12)."""
from __future__ import annotations

import z3

import specs.fluent as qspec
from contracts.common import env_obj, match_facts, method, mod, spec_fn
from pyvc import lib
from pyvc import sorts as S
from pyvc.harness import contract
from pyvc.interp import GenVal, LazyGen, SymObj
from pyvc.sorts import Py

fl = mod("jsonpath.fluent_api")
Q = "jsonpath.fluent_api:Query."


def mk_query(it, v):
    it.elem_facts = getattr(it, "elem_facts", []) + [(v, match_facts)]
    return it.alloc(fl.Query, {"_it": lib.new_iterator(it, v), "_env": env_obj(it)}, origin="FRESH")


def view_of(it, r):
    """What an operation handed back, as a list term."""
    if isinstance(r, SymObj) and r.cls is fl.Query:
        io = lib.as_iterator(it, r.fields["_it"])
        if io is None:
            return Py.list(lib.seq_of(it, r.fields["_it"]))
        return Py.list(io.fields["rest"])
    if isinstance(r, (GenVal, LazyGen)):
        return Py.list(lib.seq_of(it, r))
    if S.is_term(r):
        o = it.deref(r)
        if isinstance(o, SymObj) and o.cls is fl.Query:
            return view_of(it, o)
        t = z3.simplify(r)
        if t.decl().name() in ("tuple", "list") and lib.concrete_len(S.seq_items(t)) is not None:
            n = lib.concrete_len(S.seq_items(t))
            return S.mk_list([view_of(it, z3.simplify(S.seq_items(t)[i])) for i in range(n)])
        return r
    return it.to_term(r)


def _register(name, arg_kind, props=("C12",), specname=None, extra_funcs=()):
    specname = specname or name

    @contract(f"Query.{name}==list-op", props, [Q + name] + [Q + f for f in extra_funcs], replay=("query_op_replay", [name, specname, arg_kind], "query_candidates"))
    def _c(ctx, name=name, arg_kind=arg_kind, specname=specname):
        v = ctx.seq("v")
        args = []
        if arg_kind == "int":
            n = ctx.int("n")
            args = [Py.int(n)]
        elif isinstance(arg_kind, int):
            args = [S.mk_int(arg_kind)]

        def code(it):
            q = mk_query(it, v)
            r = it.call_method(q, name, list(args))
            rv = view_of(it, r)  # consuming a lazy view consumes the query's iterator
            rest = lib.as_iterator(it, q.fields["_it"])
            remaining = Py.list(rest.fields["rest"]) if rest is not None else Py.list(lib.seq_of(it, q.fields["_it"]))
            # operations that return the query itself: what it hands back is what remains
            return S.mk_tuple([rv, remaining])

        def spec(it):
            it.elem_facts = getattr(it, "elem_facts", []) + [(v, match_facts)]
            r = it.run_function(spec_fn(qspec, specname), [Py.list(v)] + list(args), {})
            return r

        ctx.equiv(f"Query.{name}", code, spec)


_register("limit", "int")
_register("head", "int", specname="limit", extra_funcs=("limit",))
_register("first", "int", specname="limit", extra_funcs=("limit",))
_register("drop", "int")
_register("skip", "int", specname="drop", extra_funcs=("drop",))
_register("tail", "int")
_register("last", "int", specname="tail", extra_funcs=("tail",))
_register("take", "int")
_register("first_one", None)
_register("one", None, specname="first_one", extra_funcs=("first_one",))
_register("last_one", None, extra_funcs=("tail",))
_register("values", None)
_register("locations", None)
_register("items", None)
for _k in (0, 1, 2, 3):
    _register_tee = None


def _tee(k):
    @contract(f"Query.tee[{k}]==list-op", ("C12",), [Q + "tee", Q + "__init__"])
    def _c(ctx, k=k):
        v = ctx.seq("v")

        def code(it):
            q = mk_query(it, v)
            r = it.call_method(q, "tee", [S.mk_int(k)])
            rv = view_of(it, r)
            rest = lib.as_iterator(it, q.fields["_it"])
            return S.mk_tuple([rv, Py.list(rest.fields["rest"])])

        ctx.equiv(f"Query.tee[{k}]", code, lambda it: it.run_function(spec_fn(qspec, "tee"), [Py.list(v), S.mk_int(k)], {}))


for _k in (0, 1, 2, 3):
    _tee(_k)


@contract("Query.tee[negative]", ("C12",), [Q + "tee"])
def _tee_neg(ctx):
    v = ctx.seq("v")
    n = ctx.int("n")
    ctx.require(n < 0)

    def code(it):
        q = mk_query(it, v)
        return it.call_method(q, "tee", [Py.int(n)])

    ctx.equiv("Query.tee[negative]", code, lambda it: it.run_function(spec_fn(qspec, "tee"), [Py.list(v), Py.int(n)], {}), ignore_return_value=True)

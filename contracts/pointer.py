"""Contracts of jsonpath/pointer.py against RFC 6901 (C04), pointer algebra (C14), relative
pointers (C16) and the match -> pointer step of C20/C03."""
from __future__ import annotations

import z3

import specs.rfc6901 as pspec
from contracts.common import method, mod, spec_fn
from pyvc import lib
from pyvc import sorts as S
from pyvc.harness import call_contract, contract
from pyvc.sorts import Py

ptr = mod("jsonpath.pointer")
P = "jsonpath.pointer:JSONPointer."


@call_contract("specs.prims:canonical_int")
def _canonical_int(it, fv, args, kwargs):
    s = lib.T(it, args[0])
    return S.mk_bool(z3.And(Py.is_str(s), z3.InRe(Py.s(s), z3.Union(z3.Re("0"), z3.Concat(z3.Option(z3.Re("-")), S.NZDIGIT, z3.Star(S.DIGIT))))))


@call_contract("specs.prims:canonical_nat")
def _canonical_nat(it, fv, args, kwargs):
    s = lib.T(it, args[0])
    return S.mk_bool(z3.And(Py.is_str(s), z3.InRe(Py.s(s), S.RE_CANON_NAT)))


encode_abs = z3.Function("pointer_encode", Py, z3.StringSort())


def pointer_obj(it, parts=None):
    f = {}
    if parts is not None:
        f["parts"] = parts
        f["_s"] = Py.str(encode_abs(parts))  # representation invariant: _s == _encode(parts)
    return it.alloc(ptr.JSONPointer, f, origin="QUERY")


@contract("JSONPointer._index==spec", ("C04", "C14", "C03"), [P + "_index"], replay=("index_replay", []))
def _index(ctx):
    s = ctx.str("s")
    lo, hi = ptr.JSONPointer.min_int_index, ptr.JSONPointer.max_int_index
    ctx.equiv(
        "_index",
        lambda it: it.run_function(method(ptr.JSONPointer, "_index"), [pointer_obj(it), Py.str(s)], {}),
        lambda it: it.run_function(spec_fn(pspec, "index_token"), [Py.str(s), S.mk_int(lo), S.mk_int(hi)], {}),
    )


def key_ok(k):
    """A token as held in `parts`: an int, or a str that is not one of the documented
    '#'/'~'-prefixed extension tokens (outside the RFC clause of C04)."""
    return z3.Or(
        Py.is_int(k),
        z3.And(Py.is_str(k), z3.Not(z3.PrefixOf(z3.StringVal("#"), Py.s(k))), z3.Not(z3.PrefixOf(z3.StringVal("~"), Py.s(k)))),
    )


@contract("JSONPointer._getitem==spec", ("C04", "C20", "C03"), [P + "_getitem", P + "_index"], replay=("getitem_replay", []))
def _getitem(ctx):
    obj = ctx.json("obj")
    key = ctx.val("key")
    ctx.require(key_ok(key))
    # no Python list is longer than the index limit (2**53 - 1): the documented limit check in
    # _index can then never reject an index that is in range
    ctx.require(S.py_len(obj) <= ptr.JSONPointer.max_int_index)
    ctx.equiv(
        "_getitem",
        lambda it: it.run_function(method(ptr.JSONPointer, "_getitem"), [pointer_obj(it), obj, key], {}),
        lambda it: it.run_function(spec_fn(pspec, "step"), [obj, key], {}),
    )


# ------------------------------------------------------------------ resolve / exists / resolve_parent (fold rule)

exc = mod("jsonpath.exceptions")
_STEP_RAISES = [exc.JSONPointerKeyError, exc.JSONPointerIndexError, exc.JSONPointerTypeError]
# a step returns a member / element of a JSON value; no Python container is longer than 2**53 - 1
_STEP_POST = lambda init, val: z3.And(z3.Implies(S.isjson(init), S.json_value(val)), S.py_len(val) <= ptr.JSONPointer.max_int_index)  # noqa: E731
lib.FOLD_IDS["jsonpath.pointer:JSONPointer._getitem"] = ("pointer_step", _STEP_RAISES, _STEP_POST)
lib.FOLD_IDS["specs.rfc6901:step"] = ("pointer_step", _STEP_RAISES, _STEP_POST)


def parts_input(ctx):
    """`parts`: any finite tuple of tokens as held by a pointer (ints, or non-extension strings)."""
    ps = ctx.seq("parts")
    n = z3.Length(ps)
    ctx.require(z3.Implies(n > 0, key_ok(ps[n - 1])))  # the fold abstracts the other tokens
    return ps


def _setup_resolve(ctx):
    ps = parts_input(ctx)
    data = ctx.json("data")
    ctx.require(z3.Not(Py.is_str(data)))  # JSON text is parsed by load_data first (C11)
    ctx.require(S.py_len(data) <= ptr.JSONPointer.max_int_index)
    return ps, data


@contract("JSONPointer.resolve==spec", ("C04",), [P + "resolve", "jsonpath._data:load_data"])
def _resolve(ctx):
    ps, data = _setup_resolve(ctx)
    default = ctx.val("default")
    undefined = lambda it: it.lift(ptr.UNDEFINED)  # noqa: E731
    ctx.equiv(
        "resolve",
        lambda it: it.run_function(method(ptr.JSONPointer, "resolve"), [pointer_obj(it, Py.tuple(ps)), data], {"default": default}),
        lambda it: it.run_function(spec_fn(pspec, "resolve"), [Py.tuple(ps), data, default], {}),
    )
    ctx.equiv(
        "resolve(no default)",
        lambda it: it.run_function(method(ptr.JSONPointer, "resolve"), [pointer_obj(it, Py.tuple(ps)), data], {}),
        lambda it: it.run_function(spec_fn(pspec, "resolve"), [Py.tuple(ps), data, undefined(it)], {}),
    )


@contract("JSONPointer.exists==spec", ("C04",), [P + "exists", P + "resolve"])
def _exists(ctx):
    ps, data = _setup_resolve(ctx)
    ctx.equiv(
        "exists",
        lambda it: it.run_function(method(ptr.JSONPointer, "exists"), [pointer_obj(it, Py.tuple(ps)), data], {}),
        lambda it: it.run_function(spec_fn(pspec, "exists"), [Py.tuple(ps), data], {}),
    )


@contract("JSONPointer.resolve_parent==spec", ("C04", "C05", "C20"), [P + "resolve_parent", P + "resolve"])
def _resolve_parent(ctx):
    ps, data = _setup_resolve(ctx)
    ctx.equiv(
        "resolve_parent",
        lambda it: it.run_function(method(ptr.JSONPointer, "resolve_parent"), [pointer_obj(it, Py.tuple(ps)), data], {}),
        lambda it: it.run_function(spec_fn(pspec, "resolve_parent"), [Py.tuple(ps), data], {}),
    )


# ------------------------------------------------------------------ pointer algebra (C14), match -> pointer (C03, C20)


@call_contract("jsonpath.pointer:JSONPointer._encode")
def _encode_contract(it, fv, args, kwargs):
    """ASSUMED here (string law bounded in C14): the text is a function of the token tuple,
    and the empty tuple is spelled ''."""
    parts = it.to_term(args[-1])
    it.assume(z3.Implies(S.py_len(parts) == 0, encode_abs(parts) == z3.StringVal("")))
    it.assumed.append("summary:JSONPointer._encode at call sites is an uninterpreted function of the tokens (its body is under JSONPointer._encode==pointer_text; injectivity and the round trip through _parse are lemmas/PointerText.lean, not known to the solver)")
    return Py.str(encode_abs(parts))


parse_abs = z3.Function("pointer_parse", z3.StringSort(), Py, Py, Py)
parse_err = z3.Function("pointer_parse_refuses", z3.StringSort(), Py, Py, z3.BoolSort())


@call_contract("jsonpath.pointer:JSONPointer._parse")
def _parse_contract(it, fv, args, kwargs):
    """ASSUMED here (string law bounded in C04/C14): a function of the text and the two decoding
    switches; the empty string has no tokens (RFC 6901 section 3)."""
    s_ = lib.T(it, args[1])
    ue, ud = lib.T(it, kwargs.get("unicode_escape", S.TRUE)), lib.T(it, kwargs.get("uri_decode", S.FALSE))
    if getattr(it, "parse_may_raise", False) and it.branch(parse_err(Py.s(s_), ue, ud)):
        it.raise_(mod("jsonpath.exceptions").JSONPointerError, "malformed pointer")
    r = parse_abs(Py.s(s_), ue, ud)
    it.assume(Py.is_tuple(r))
    it.assume(z3.Implies(Py.s(s_) == z3.StringVal(""), r == S.mk_tuple([])))
    it.assumed.append("summary:JSONPointer._parse at call sites is an uninterpreted function of the text and the decoding switches (its body without decoding is under JSONPointer._parse==parse_text; with decoding it is bounded in c04/c14)")
    return r


def two_pointers(ctx):
    a, b = ctx.seq("self_parts"), ctx.seq("other_parts")
    return a, b


@contract("JSONPointer.is_relative_to==spec", ("C14", "C05"), [P + "is_relative_to"], replay=("relative_replay", [], "relative_candidates"))
def _is_relative_to(ctx):
    a, b = two_pointers(ctx)
    ctx.equiv(
        "is_relative_to",
        lambda it: it.run_function(method(ptr.JSONPointer, "is_relative_to"), [pointer_obj(it, Py.tuple(a)), pointer_obj(it, Py.tuple(b))], {}),
        lambda it: it.run_function(spec_fn(pspec, "is_relative_to"), [Py.tuple(a), Py.tuple(b)], {}),
    )


@contract("JSONPointer.parent==spec", ("C14",), [P + "parent", P + "__init__"])
def _parent(ctx):
    a = ctx.seq("parts")

    def code(it):
        p = pointer_obj(it, Py.tuple(a))
        p.fields["_s"] = Py.str(encode_abs(Py.tuple(a)))
        r = it.run_function(method(ptr.JSONPointer, "parent"), [p], {})
        return it.to_term(it.getattr(r, "parts"))

    ctx.equiv("parent", code, lambda it: it.to_term(it.run_function(spec_fn(pspec, "parent_parts"), [Py.tuple(a)], {})))


@contract("JSONPointer.__eq__==same-tokens", ("C14",), [P + "__eq__"])
def _ptr_eq(ctx):
    a, b = two_pointers(ctx)
    ctx.equiv(
        "__eq__",
        lambda it: it.run_function(method(ptr.JSONPointer, "__eq__"), [pointer_obj(it, Py.tuple(a)), pointer_obj(it, Py.tuple(b))], {}),
        lambda it: it.run_function(spec_fn(pspec, "same_tokens"), [Py.tuple(a), Py.tuple(b)], {}),
    )


@contract("JSONPointer.from_match==parts", ("C03", "C20"), [P + "from_match", P + "__init__"])
def _from_match(ctx):
    from contracts.common import match_facts

    m = ctx.val("match")
    ctx.require(match_facts(m))

    def code(it):
        from pyvc.interp import ClassVal

        r = it.call(it.getattr(ClassVal(ptr.JSONPointer), "from_match"), [m])
        return S.mk_tuple([it.to_term(it.getattr(r, "parts")), it.to_term(it.getattr(r, "_s"))])

    ctx.equiv("from_match", code, lambda it: S.mk_tuple([Py.mparts(m), Py.str(encode_abs(Py.mparts(m)))]))


# ------------------------------------------------------------------ Relative JSON Pointer (C16)

import specs.relptr as rspec  # noqa: E402

from_parts_abs = z3.Function("pointer_from_parts", Py, Py, Py, Py)


@call_contract("jsonpath.pointer:JSONPointer.from_parts")
def _from_parts_contract(it, fv, args, kwargs):
    """ASSUMED here (string level bounded in C14): from_parts is a function of the token list and
    the decoding switches; with both switches off the tokens are str(p) of the given parts."""
    parts = lib.seq_of(it, args[1])
    ue, ud = lib.T(it, kwargs.get("unicode_escape", S.TRUE)), lib.T(it, kwargs.get("uri_decode", S.FALSE))
    it.assumed.append("summary:JSONPointer.from_parts at call sites is an uninterpreted function of the tokens and the decoding switches (its body without decoding is under JSONPointer.from_parts[no decoding]==tokens; with decoding it is bounded in c14/c16)")
    return from_parts_abs(Py.list(parts), ue, ud)


def _rel_setup(ctx, marker, token_kind="int"):
    origin, index = ctx.int("origin"), ctx.int("index")
    base = ctx.seq("base_parts")
    suffix = ctx.seq("suffix_parts")
    ctx.require(origin >= 0)
    n = z3.Length(base) - origin
    tok = base[n - 1]
    # scope of the statement: an offset applies to a final array index
    if token_kind == "int":
        ctx.require(z3.Implies(z3.And(index != 0, n > 0), z3.And(Py.is_int(tok), Py.i(tok) >= 0)))
    else:
        ctx.require(z3.Implies(z3.And(index != 0, n > 0), z3.And(Py.is_str(tok), z3.InRe(Py.s(tok), S.RE_CANON_NAT))))
    ctx.require(z3.Implies(n > 0, z3.Or(Py.is_int(tok), Py.is_str(tok))))

    def mk(it):
        ptr_field = S.mk_str("#") if marker else pointer_obj(it, Py.tuple(suffix))
        rel = it.alloc(ptr.RelativeJSONPointer, {"origin": Py.int(origin), "index": Py.int(index), "pointer": ptr_field}, origin="QUERY")
        return rel, pointer_obj(it, Py.tuple(base))

    return mk, origin, index, base, suffix


def _register_rel(marker, token_kind):
    @contract(
        f"RelativeJSONPointer.to[{'#' if marker else 'pointer'},{token_kind} index token]==draft",
        ("C16",),
        ["jsonpath.pointer:RelativeJSONPointer.to", "jsonpath.pointer:RelativeJSONPointer._int_like"],
        replay=("relptr_replay", [marker], "relptr_candidates"),
        tier="quick" if token_kind == "int" else "thorough",  # string index tokens: minutes of regex reasoning inside the sequence theory
    )
    def _c(ctx, marker=marker, token_kind=token_kind):
        mk, origin, index, base, suffix = _rel_setup(ctx, marker, token_kind)

        def code(it):
            rel, bp = mk(it)
            return it.run_function(method(ptr.RelativeJSONPointer, "to"), [rel, bp], {"unicode_escape": S.FALSE})

        def spec(it):
            parts = it.run_function(spec_fn(rspec, "to_parts"), [Py.int(origin), Py.int(index), Py.tuple(suffix), S.mk_bool(marker), Py.tuple(base)], {})
            return from_parts_abs(Py.list(lib.seq_of(it, parts)), S.FALSE, S.FALSE)

        ctx.equiv("RelativeJSONPointer.to", code, spec)


for _tk in ("int", "str"):
    _register_rel(True, _tk)
    _register_rel(False, _tk)


# ------------------------------------------------------------------ pointer text codec (C03 C04 C14 C20)
# The bodies of _encode / _parse / __truediv__ are proved to be the compositions of str.replace /
# split / join that lemmas/PointerText.lean is stated about (enc, dec, text, parse); the three library
# functions are uninterpreted here, their algebra (parse(text ts) = ts, text(parse s) = s on valid
# texts, '/' not in enc t) is proved there by induction.

def _token_seq(ctx, name="parts"):
    ps = ctx.seq(name)
    return ps


@contract("JSONPointer._encode==pointer_text", ("C04", "C14", "C03", "C20", "C15"), [P + "_encode"], replay=("encode_replay", [], "codec_candidates"))
def _encode_body(ctx):
    ps = _token_seq(ctx)
    kind = ctx.bool("as_tuple")

    def arg(it):
        return z3.If(kind, Py.tuple(ps), Py.list(ps))

    def elems(it):
        # tokens as held by a pointer: ints or strings
        i = z3.Int("i!enc")
        it.assume(z3.ForAll([i], z3.Implies(z3.And(i >= 0, i < z3.Length(ps)), z3.Or(Py.is_int(ps[i]), Py.is_str(ps[i])))))

    def code(it):
        elems(it)
        return it.run_function(method(ptr.JSONPointer, "_encode"), [arg(it)], {})

    def spec(it):
        elems(it)
        return it.run_function(spec_fn(pspec, "pointer_text"), [arg(it)], {})

    ctx.equiv("_encode", code, spec)


index_abs = z3.Function("pointer_index_token", z3.StringSort(), Py)
index_refuses = z3.Function("pointer_index_refuses", z3.StringSort(), z3.BoolSort())


def _index_summary(it, fv, args, kwargs):
    """Modular step: at the call sites inside _parse / __truediv__ (and inside the spec functions) the
    token -> held-token map is the function that `JSONPointer._index==spec` proves equal to
    specs.rfc6901.index_token; both sides use the same summary."""
    s_ = lib.T(it, args[-1] if fv.qualname.endswith("_index") else args[0])
    if not it.branch(Py.is_str(s_)):
        raise lib.Unsupported("token that is not a str")
    if it.branch(index_refuses(Py.s(s_))):
        it.raise_(mod("jsonpath.exceptions").JSONPointerIndexError, "index out of range")
    it.assumed.append("contract:JSONPointer._index==spec (proved separately; used as a summary at call sites)")
    return index_abs(Py.s(s_))


_INDEX_SUMMARY = {"jsonpath.pointer:JSONPointer._index": _index_summary, "specs.rfc6901:index_token": _index_summary}


@contract("JSONPointer._parse==parse_text", ("C04", "C14", "C03", "C20", "C05", "C15"), [P + "_parse"], replay=("parse_replay", [], "codec_candidates"))
def _parse_body(ctx):
    s = ctx.str("s")
    lo, hi = ptr.JSONPointer.min_int_index, ptr.JSONPointer.max_int_index

    def code(it):
        it.recursion_contract = _INDEX_SUMMARY
        return it.to_term(it.run_function(method(ptr.JSONPointer, "_parse"), [pointer_obj(it), Py.str(s)], {"unicode_escape": S.FALSE, "uri_decode": S.FALSE}))

    def spec(it):
        it.recursion_contract = _INDEX_SUMMARY
        return it.to_term(it.run_function(spec_fn(pspec, "parse_text"), [Py.str(s), S.mk_int(lo), S.mk_int(hi)], {}))

    ctx.equiv("_parse", code, spec)


uesc_abs = z3.Function("pointer_unicode_unescape", z3.StringSort(), z3.StringSort())
uesc_refuses = z3.Function("pointer_unicode_unescape_refuses", z3.StringSort(), z3.BoolSort())


def _uesc_summary(it, fv, args, kwargs):
    s_ = lib.T(it, args[-1])
    if it.branch(uesc_refuses(Py.s(s_))):
        it.raise_(mod("jsonpath.exceptions").JSONPointerError, "invalid escape sequence")
    it.assumed.append("contract:JSONPointer._unicode_escape(uninterpreted function of the text: codecs are outside the model; bounded in c04/c14)")
    return Py.str(uesc_abs(Py.s(s_)))


_TRUEDIV_SUMMARY = dict(_INDEX_SUMMARY)
_TRUEDIV_SUMMARY["jsonpath.pointer:JSONPointer._unicode_escape"] = _uesc_summary
_TRUEDIV_SUMMARY["specs.rfc6901:unicode_unescape"] = _uesc_summary


@contract("JSONPointer.__truediv__==join_tokens", ("C14",), [P + "__truediv__", P + "__init__"], replay=("truediv_replay", [], "codec_candidates"))
def _truediv_body(ctx):
    a = ctx.seq("self_parts")
    o = ctx.str("other")
    lo, hi = ptr.JSONPointer.min_int_index, ptr.JSONPointer.max_int_index
    # the other case (a text with a leading slash replaces the pointer) is the constructor: _parse contract
    ctx.require(z3.Not(z3.PrefixOf(z3.StringVal("/"), uesc_abs(lib.str_lstrip(o)))))

    def code(it):
        it.recursion_contract = _TRUEDIV_SUMMARY
        r = it.run_function(method(ptr.JSONPointer, "__truediv__"), [pointer_obj(it, Py.tuple(a)), Py.str(o)], {})
        return it.to_term(it.getattr(r, "parts"))

    def spec(it):
        it.recursion_contract = _TRUEDIV_SUMMARY
        return it.to_term(it.run_function(spec_fn(pspec, "truediv_parts"), [Py.tuple(a), Py.str(o), S.mk_int(lo), S.mk_int(hi)], {}))

    ctx.equiv("__truediv__", code, spec)


@contract("JSONPointer.from_parts[no decoding]==tokens", ("C14", "C16"), [P + "from_parts", P + "__init__"], replay=("from_parts_replay", [], "codec_candidates"))
def _from_parts_body(ctx):
    """Escape / URI decoding off: the pointer holds str(p) for every given token and prints their
    RFC 6901 spelling (through _encode, summarised at the call site; its body has its own contract)."""
    ps = ctx.seq("parts")

    def elems(it):
        i = z3.Int("i!fp")
        it.assume(z3.ForAll([i], z3.Implies(z3.And(i >= 0, i < z3.Length(ps)), z3.Or(Py.is_int(ps[i]), Py.is_str(ps[i])))))

    def code(it):
        from pyvc.interp import ClassVal

        elems(it)
        it.inline = set(getattr(it, "inline", ())) | {"jsonpath.pointer:JSONPointer.from_parts"}  # the body itself, not its call-site summary
        r = it.call(it.getattr(ClassVal(ptr.JSONPointer), "from_parts"), [Py.list(ps)], {"unicode_escape": S.FALSE, "uri_decode": S.FALSE})
        parts = it.to_term(it.getattr(r, "parts"))
        return S.mk_tuple([parts, it.to_term(it.getattr(r, "_s"))])

    def spec(it):
        elems(it)
        toks = it.to_term(it.run_function(spec_fn(pspec, "from_parts_tokens"), [Py.list(ps)], {}))
        # an empty token tuple is falsy: the constructor then parses the text it was given, which is ""
        return S.mk_tuple([toks, Py.str(encode_abs(toks))])

    ctx.equiv("from_parts", code, spec)

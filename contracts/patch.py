"""Contracts of jsonpath/patch.py against RFC 6902 section 4 (C05), patch construction (C15)
and the match -> pointer -> patch composition (C20).

Heap model (DESIGN C05): the document and the container that holds the target are mutable boxes;
`resolve_parent` is used through its contract and hands out the box of the parent container; the
operation's effect is the final content of the boxes + the returned value.  That mutating the
parent box of a tree-shaped document is the whole-document update is the *lifting assumption*
(validated bounded in monitors/c05.py, never counted as proved)."""
from __future__ import annotations

import z3

import specs.rfc6901 as pspec
import specs.rfc6902 as jspec
from contracts.common import method, mod, spec_fn
from contracts.pointer import key_ok, pointer_obj, ptr
from pyvc import lib
from pyvc import sorts as S
from pyvc.harness import call_contract, contract
from pyvc.interp import PyRaise, SymObj
from pyvc.sorts import Py

pm = mod("jsonpath.patch")
exc = mod("jsonpath.exceptions")
J = "jsonpath.patch:"

parent_of = z3.Function("parent_of", S.SeqPy, Py, Py)  # content of the container located by parts[:-1]
parent_exc = z3.Function("parent_exc", S.SeqPy, Py, z3.IntSort())


def new_box(it, content, origin):
    return it.alloc(list, {"v": content}, origin=origin)


@call_contract("jsonpath.pointer:JSONPointer.resolve_parent")
def _resolve_parent_contract(it, fv, args, kwargs):
    """Contract of JSONPointer.resolve_parent (== specs.rfc6901.resolve_parent, proved in
    contracts/pointer.py), with object identity: the parent handed out is the document itself for a
    one-token pointer, otherwise the container inside it (a box whose content is what the fold of the
    RFC 6901 steps finds)."""
    p, data = args[0], args[1]
    parts = it.to_term(it.getattr(p, "parts"))
    toks = Py.titems(parts)
    n = z3.Length(toks)
    dbox = lib.box_of(it, data)
    dcontent = lib.T(it, data)
    it.assumed.append("contract:JSONPointer.resolve_parent == RFC 6901 (proved in contracts/pointer.py)")
    if it.branch(n == 0):
        return S.mk_tuple([S.NONE, it.to_term(data) if dbox is not None else dcontent])
    sl = lib.split_last(toks) if not z3.is_app_of(parts, z3.Z3_OP_UNINTERPRETED) else None
    kind, seq = lib._container_seq(parts)
    sl = lib.split_last(seq) if kind is not None else None
    if sl is not None:
        prefix_seq, last = sl
    else:
        prefix_seq, last = z3.simplify(z3.Extract(toks, 0, n - 1)), z3.simplify(toks[n - 1])
    it.assume(key_ok(last))
    if it.branch(z3.Length(prefix_seq) == 0):
        pbox = dbox if dbox is not None else new_box(it, dcontent, "DOC")
        if getattr(it, "parent_is_array", False):
            it.assume(Py.is_list(pbox.fields["v"]))
    else:
        prefix = prefix_seq
        which = parent_exc(prefix, dcontent)
        it.assume(z3.And(which >= 0, which <= 3))
        for k, cls in enumerate((exc.JSONPointerKeyError, exc.JSONPointerIndexError, exc.JSONPointerTypeError)):
            if it.branch(which == k + 1):
                raise PyRaise(lib.ExcVal(cls, [S.mk_str("raised while locating the parent")]))
        content = parent_of(prefix, dcontent)
        it.assume(S.json_value(content))
        if getattr(it, "parent_is_array", False):
            it.assume(Py.is_list(content))
        it.assume(S.py_len(content) <= ptr.JSONPointer.max_int_index)
        boxes = getattr(it, "parent_boxes", {})
        key = z3.simplify(prefix).sexpr()
        if key not in boxes:
            boxes[key] = new_box(it, content, "DOC")
            it.parent_boxes = boxes
        pbox = boxes[key]
    # the last step, on the *current* content of the parent
    cur = pbox.fields["v"]
    try:
        obj = it.run_function(spec_fn(pspec, "step"), [cur, last], {})
    except PyRaise as e:
        if issubclass(e.exc.cls, (exc.JSONPointerIndexError, exc.JSONPointerKeyError)):
            obj = it.lift(ptr.UNDEFINED)
        else:
            raise
    it.touched = getattr(it, "touched", []) + [pbox]
    return S.mk_tuple([it.obj_term(pbox), it.to_term(obj)])


def observe(it, data_box, result):
    """(returned value, final content of the document box, final contents of the parent boxes)."""
    rb = lib.box_of(it, result)
    if rb is not None:
        rv = S.mk_tuple([S.mk_str("<the document object>") if rb is data_box else S.mk_str("<another container>"), rb.fields["v"]])
    else:
        rv = S.mk_tuple([S.mk_str("<value>"), it.to_term(result)])
    boxes = getattr(it, "parent_boxes", {})
    finals = [boxes[k].fields["v"] for k in sorted(boxes)]
    return S.mk_tuple([rv, data_box.fields["v"]] + finals)


def patch_frame(o):
    """C15 frame: applying an operation stores only into the document (its boxes) and into objects
    the call allocated - never into the operation, its pointers or the patch."""
    from contracts.purity import write_items

    bad = [w for w in write_items(o.trace) if not ((w[0] == "mutate" and w[2] in ("FRESH", "DOC")) or (w[0] == "write" and w[1] == "DOC"))]
    if bad:
        return [("frame", [], z3.BoolVal(False), f"stores outside the document: {bad[:3]}")]
    return [("frame", [], z3.BoolVal(True), "no store into the operation, its pointers or the patch on this path")]


TOKEN_CLASSES = {
    "int": lambda t: Py.is_int(t),
    "dash": lambda t: t == S.mk_str("-"),
    "name": lambda t: z3.And(Py.is_str(t), z3.Not(z3.InRe(Py.s(t), lib.RE_PYINT)), Py.s(t) != z3.StringVal("-")),
    "digits": lambda t: z3.And(Py.is_str(t), z3.InRe(Py.s(t), lib.RE_PYINT)),
}


def doc_inputs(ctx, prefix="", nonempty=True, token_class=None):
    """A pointer's tokens as `prefix ++ (last,)` (the empty pointer is a separate, trivial case):
    keeping the last token a plain input keeps string reasoning out of the sequence theory."""
    data = ctx.json("data") if "data" not in ctx.inputs else ctx.inputs["data"]
    ctx.require(z3.Not(Py.is_str(data)), S.py_len(data) <= ptr.JSONPointer.max_int_index)
    if not nonempty:
        ctx.inputs[prefix + "parts"] = S.mk_list([])
        return S.EmptySeq, data
    pre = ctx.seq(prefix + "prefix")
    last = ctx.val(prefix + "last")
    ctx.require(key_ok(last))
    if token_class is not None:
        ctx.require(TOKEN_CLASSES[token_class](last))
    ps = z3.Concat(pre, z3.Unit(last))
    ctx.inputs[prefix + "parts"] = Py.list(ps)
    return ps, data


def _register_value_op(clsname, specname, props, has_value=True):
    cls = getattr(pm, clsname)

    _register_value_op_case(clsname, cls, specname, props, has_value, False, None)
    for tc in TOKEN_CLASSES:
        _register_value_op_case(clsname, cls, specname, props, has_value, True, tc)


def _register_value_op_case(clsname, cls, specname, props, has_value, nonempty, tc):
    @contract(
        f"{clsname}.apply==RFC6902" + (f"[{tc}]" if nonempty else "[root]"),
        props,
        [J + f"{clsname}.apply"],
        replay=("patch_op_replay", [clsname]),
        tier="thorough" if tc == "digits" else "quick",  # integer-looking *string* tokens: 3 min of regex reasoning
    )
    def _c(ctx, cls=cls, specname=specname, has_value=has_value, nonempty=nonempty, tc=tc):
        ps, data = doc_inputs(ctx, nonempty=nonempty, token_class=tc)
        value = ctx.json("value") if has_value else None

        def code(it):
            dbox = new_box(it, data, "DOC")
            f = {"path": pointer_obj(it, Py.tuple(ps))}
            if has_value:
                f["value"] = value
            op = it.alloc(cls, f, origin="PATCH")
            r = it.call_method(op, "apply", [dbox])
            return observe(it, dbox, r)

        def spec(it):
            dbox = new_box(it, data, "DOC")
            a = [pointer_obj(it, Py.tuple(ps))] + ([value] if has_value else []) + [dbox]
            r = it.run_function(spec_fn(jspec, specname), a, {})
            return observe(it, dbox, r)

        ctx.equiv(f"{cls.__name__}.apply", code, spec, post=patch_frame)


_register_value_op("OpAdd", "op_add", ("C05", "C15"))
_register_value_op("OpRemove", "op_remove", ("C05", "C20", "C15"), has_value=False)
_register_value_op("OpReplace", "op_replace", ("C05", "C20", "C15"))
_register_value_op("OpTest", "op_test", ("C05", "C20", "C15"))


# ------------------------------------------------------------------ move / copy: source and destination in the same container

def _register_move_copy(clsname, specname, src_class, dst_class):
    cls = getattr(pm, clsname)

    @contract(
        f"{clsname}.apply==RFC6902[{src_class}->{dst_class}]",
        ("C05", "C15"),
        [J + f"{clsname}.apply", J + "OpAdd.apply", "jsonpath.pointer:JSONPointer.is_relative_to"],
        replay=("patch_move_copy_replay", [clsname]),
    )
    def _c(ctx, cls=cls, specname=specname):
        data = ctx.json("data")
        ctx.require(z3.Not(Py.is_str(data)), S.py_len(data) <= ptr.JSONPointer.max_int_index)
        pre = ctx.seq("prefix")
        src_last, dst_last = ctx.val("src_last"), ctx.val("dst_last")
        ctx.require(key_ok(src_last), key_ok(dst_last), TOKEN_CLASSES[src_class](src_last), TOKEN_CLASSES[dst_class](dst_last))
        src = Py.tuple(z3.Concat(pre, z3.Unit(src_last)))
        dst = Py.tuple(z3.Concat(pre, z3.Unit(dst_last)))
        ctx.inputs["src_parts"], ctx.inputs["dst_parts"] = src, dst

        def code(it):
            # arrays only: two lookups in one object after an update are beyond the dict_find model
            # (the object cases are covered bounded, monitors/c05.py)
            it.parent_is_array = True
            dbox = new_box(it, data, "DOC")
            op = it.alloc(cls, {"source": pointer_obj(it, src), "dest": pointer_obj(it, dst)}, origin="PATCH")
            return observe(it, dbox, it.call_method(op, "apply", [dbox]))

        def spec(it):
            it.parent_is_array = True
            dbox = new_box(it, data, "DOC")
            return observe(it, dbox, it.run_function(spec_fn(jspec, specname), [pointer_obj(it, src), pointer_obj(it, dst), dbox], {}))

        ctx.equiv(f"{cls.__name__}.apply", code, spec, post=patch_frame)


for _cn, _sn in (("OpMove", "op_move"), ("OpCopy", "op_copy")):
    for _sc in ("int",):
        for _dc in ("int", "dash"):
            _register_move_copy(_cn, _sn, _sc, _dc)

_register_value_op("OpAddNe", "op_addne", ("C15",))
_register_value_op("OpAddAp", "op_addap", ("C15",))

"""Contracts of jsonpath/patch.py against RFC 6902 section 4 (C05), patch construction (C15)
and the match -> pointer -> patch composition (C20).

Heap model (DESIGN C05): the document and the container that holds the target are mutable boxes;
`resolve_parent` is used through its contract and hands out the box of the parent container; the
operation's effect is the final content of the boxes + the returned value.  That mutating the
parent box of a tree-shaped document is the whole-document update is the *lifting assumption*
(validated bounded in monitors/c05.py, never counted as proved)."""
from __future__ import annotations

import z3

import specs.rfc6901 as pspec
import specs.rfc6902 as jspec
from contracts.common import method, mod, spec_fn
from contracts.pointer import key_ok, pointer_obj, ptr
from pyvc import lib
from pyvc import sorts as S
from pyvc.harness import call_contract, contract
from pyvc.interp import PyRaise, SymObj
from pyvc.sorts import Py

pm = mod("jsonpath.patch")
exc = mod("jsonpath.exceptions")
J = "jsonpath.patch:"

parent_of = z3.Function("parent_of", S.SeqPy, Py, Py)  # content of the container located by parts[:-1]
parent_exc = z3.Function("parent_exc", S.SeqPy, Py, z3.IntSort())


def new_box(it, content, origin):
    return it.alloc(list, {"v": content}, origin=origin)


@call_contract("jsonpath.pointer:JSONPointer.resolve_parent")
def _resolve_parent_contract(it, fv, args, kwargs):
    """Contract of JSONPointer.resolve_parent (== specs.rfc6901.resolve_parent, proved in
    contracts/pointer.py), with object identity: the parent handed out is the document itself for a
    one-token pointer, otherwise the container inside it (a box whose content is what the fold of the
    RFC 6901 steps finds)."""
    p, data = args[0], args[1]
    parts = it.to_term(it.getattr(p, "parts"))
    toks = Py.titems(parts)
    n = z3.Length(toks)
    dbox = lib.box_of(it, data)
    dcontent = lib.T(it, data)
    it.assumed.append("contract:JSONPointer.resolve_parent == RFC 6901 (proved in contracts/pointer.py)")
    if it.branch(n == 0):
        return S.mk_tuple([S.NONE, it.to_term(data) if dbox is not None else dcontent])
    last = toks[n - 1]
    it.assume(key_ok(last))
    if it.branch(n == 1):
        pbox = dbox if dbox is not None else new_box(it, dcontent, "DOC")
    else:
        prefix = z3.Extract(toks, 0, n - 1)
        which = parent_exc(prefix, dcontent)
        it.assume(z3.And(which >= 0, which <= 3))
        for k, cls in enumerate((exc.JSONPointerKeyError, exc.JSONPointerIndexError, exc.JSONPointerTypeError)):
            if it.branch(which == k + 1):
                raise PyRaise(lib.ExcVal(cls, [S.mk_str("raised while locating the parent")]))
        content = parent_of(prefix, dcontent)
        it.assume(S.json_value(content))
        it.assume(S.py_len(content) <= ptr.JSONPointer.max_int_index)
        boxes = getattr(it, "parent_boxes", {})
        key = z3.simplify(prefix).sexpr()
        if key not in boxes:
            boxes[key] = new_box(it, content, "DOC")
            it.parent_boxes = boxes
        pbox = boxes[key]
    # the last step, on the *current* content of the parent
    cur = pbox.fields["v"]
    try:
        obj = it.run_function(spec_fn(pspec, "step"), [cur, last], {})
    except PyRaise as e:
        if issubclass(e.exc.cls, (exc.JSONPointerIndexError, exc.JSONPointerKeyError)):
            obj = it.lift(ptr.UNDEFINED)
        else:
            raise
    it.touched = getattr(it, "touched", []) + [pbox]
    return S.mk_tuple([it.obj_term(pbox), it.to_term(obj)])


def observe(it, data_box, result):
    """(returned value, final content of the document box, final contents of the parent boxes)."""
    rb = lib.box_of(it, result)
    if rb is not None:
        rv = S.mk_tuple([S.mk_str("<the document object>") if rb is data_box else S.mk_str("<another container>"), rb.fields["v"]])
    else:
        rv = S.mk_tuple([S.mk_str("<value>"), it.to_term(result)])
    boxes = getattr(it, "parent_boxes", {})
    finals = [boxes[k].fields["v"] for k in sorted(boxes)]
    return S.mk_tuple([rv, data_box.fields["v"]] + finals)


def doc_inputs(ctx, prefix=""):
    ps = ctx.seq(prefix + "parts")
    data = ctx.json("data") if "data" not in ctx.inputs else ctx.inputs["data"]
    ctx.require(z3.Not(Py.is_str(data)), S.py_len(data) <= ptr.JSONPointer.max_int_index)
    return ps, data


def _register_value_op(clsname, specname, props, has_value=True):
    cls = getattr(pm, clsname)

    @contract(f"{clsname}.apply==RFC6902", props, [J + f"{clsname}.apply"], replay=("patch_op_replay", [clsname]))
    def _c(ctx, cls=cls, specname=specname, has_value=has_value):
        ps, data = doc_inputs(ctx)
        value = ctx.json("value") if has_value else None

        def code(it):
            dbox = new_box(it, data, "DOC")
            f = {"path": pointer_obj(it, Py.tuple(ps))}
            if has_value:
                f["value"] = value
            op = it.alloc(cls, f, origin="PATCH")
            r = it.call_method(op, "apply", [dbox])
            return observe(it, dbox, r)

        def spec(it):
            dbox = new_box(it, data, "DOC")
            a = [pointer_obj(it, Py.tuple(ps))] + ([value] if has_value else []) + [dbox]
            r = it.run_function(spec_fn(jspec, specname), a, {})
            return observe(it, dbox, r)

        ctx.equiv(f"{cls.__name__}.apply", code, spec)


_register_value_op("OpAdd", "op_add", ("C05", "C15"))
_register_value_op("OpRemove", "op_remove", ("C05", "C20"), has_value=False)
_register_value_op("OpReplace", "op_replace", ("C05", "C20"))
_register_value_op("OpTest", "op_test", ("C05", "C20"))

"""Contracts of the comparison core of jsonpath/env.py and the filter expression nodes of
jsonpath/filter.py against RFC 9535 2.3.5 / 2.4 (C02), the documented extensions (C13)."""
from __future__ import annotations

import z3

import specs.rfc9535_filter as fspec
from contracts.common import env_obj, method, mod, spec_fn
from pyvc import lib
from pyvc import sorts as S
from pyvc.harness import call_contract, contract
from pyvc.sorts import Py

envm = mod("jsonpath.env")
E = "jsonpath.env:JSONPathEnvironment."


@call_contract("specs.prims:json_equal")
def _json_equal(it, fv, args, kwargs):
    a, b = lib.T(it, args[0]), lib.T(it, args[1])
    lib.add_eq_facts(it, a, b)
    return S.mk_bool(S.rfc_eq(a, b))


def operand(ctx, name):
    """A comparison operand after singular-query unwrapping (contract of InfixExpression.evaluate):
    a JSON value, Nothing, or an empty nodelist (well-typed queries compare singular queries only)."""
    v = ctx.val(name)
    ctx.require(
        z3.Or(
            S.json_value(v),
            Py.is_undef(v),
            z3.And(Py.is_nodelist(v), z3.Length(Py.nitems(v)) == 0),
        )
    )
    return v


def logical(ctx, name):
    """An operand in a logical position: LogicalType (bool), a nodelist (existence), or Nothing."""
    v = ctx.val(name)
    ctx.require(z3.Or(Py.is_bool(v), Py.is_nodelist(v), Py.is_undef(v)))
    return v


@contract("env._lt==rfc_lt", ("C02",), [E + "_lt"], replay=("env_replay", ["_lt", "rfc_lt"]))
def _lt(ctx):
    l, r = operand(ctx, "left"), operand(ctx, "right")
    ctx.equiv(
        "_lt",
        lambda it: it.run_function(method(envm.JSONPathEnvironment, "_lt"), [env_obj(it), l, r], {}),
        lambda it: it.run_function(spec_fn(fspec, "rfc_lt"), [l, r], {}),
    )


@contract("env._eq==rfc_eq", ("C02",), [E + "_eq"], replay=("env_replay", ["_eq", "rfc_eq"]))
def _eq(ctx):
    l, r = operand(ctx, "left"), operand(ctx, "right")
    ctx.equiv(
        "_eq",
        lambda it: it.run_function(method(envm.JSONPathEnvironment, "_eq"), [env_obj(it), l, r], {}),
        lambda it: it.run_function(spec_fn(fspec, "rfc_eq"), [l, r], {}),
    )


@contract("env.is_truthy==rfc_test", ("C02",), [E + "is_truthy"], replay=("env_replay1", ["is_truthy", "rfc_test"]))
def _truthy(ctx):
    x = logical(ctx, "obj")
    ctx.equiv(
        "is_truthy",
        lambda it: it.run_function(method(envm.JSONPathEnvironment, "is_truthy"), [env_obj(it), x], {}),
        lambda it: it.run_function(spec_fn(fspec, "rfc_test"), [x], {}),
    )


def _register_compare(op, props, specname):
    is_logical = op in ("&&", "||")

    @contract(f"env.compare[{op}]==spec", props, [E + "compare", E + "_eq", E + "_lt", E + "is_truthy"], replay=("compare_replay", [op, specname]))
    def _c(ctx, op=op):
        mk = logical if is_logical else operand
        l, r = mk(ctx, "left"), mk(ctx, "right")
        if op == "=~":
            # the right operand of =~ is a compiled regular-expression literal (or any other operand)
            r = ctx.val("pattern")
            ctx.require(z3.Or(Py.is_pattern(r), S.json_value(r)))
        ctx.equiv(
            f"compare[{op}]",
            lambda it: it.run_function(method(envm.JSONPathEnvironment, "compare"), [env_obj(it), l, S.mk_str(op), r], {}),
            lambda it: it.run_function(spec_fn(fspec, specname), [l, S.mk_str(op), r], {}),
        )


for _op in ("==", "!=", "<", ">", "<=", ">=", "&&", "||"):
    _register_compare(_op, ("C02",), "rfc_compare")
for _op in ("<>", "in", "contains", "=~"):
    _register_compare(_op, ("C13",), "ext_compare")

"""C15, construction side: the document form, the builder form and the list-of-dicts form of a patch
agree, per operation kind.

Under contract: `JSONPatch._build` (dispatch on the "op" member), `_op_pointer`, `_op_value`,
`_ensure_pointer`, the eight builder methods, `asdicts` and every `Op*.asdict`, `Op*.__init__`.
`JSONPointer.__init__` runs for real; its `_parse` / `_encode` are the uninterpreted functions of
contracts/pointer.py (string laws bounded in C04/C14) - here `_parse` may also raise.

Obligations per kind K:
  * `_build([{"op": K, ...}])`  and the builder call `patch.K(...)` leave patches that print the same
    list of dicts, or both refuse with JSONPatchError (equiv);
  * that printed list is `[{"op": K, "path": text, ("value": v | "from": text)}]` - the dict carries
    the name it was given (post);
  * a missing member is refused with JSONPatchError (post);
  * printing does not change the patch (frame), and `_build` of the printed list prints the same list
    again when the pointer text re-parses to the same tokens (the string law assumed from C14).
"""
from __future__ import annotations

import z3

from contracts.common import mod
from contracts.pointer import encode_abs, parse_abs
from pyvc import lib
from pyvc import sorts as S
from pyvc.harness import contract
from pyvc.sorts import Py

pm = mod("jsonpath.patch")
exc = mod("jsonpath.exceptions")
J = "jsonpath.patch:"

KINDS = {
    # name: (builder method, members besides "op", builder keyword names, class)
    "add": ("add", ("path", "value"), ("path", "value"), "OpAdd"),
    "addne": ("addne", ("path", "value"), ("path", "value"), "OpAddNe"),
    "addap": ("addap", ("path", "value"), ("path", "value"), "OpAddAp"),
    "remove": ("remove", ("path",), ("path",), "OpRemove"),
    "replace": ("replace", ("path", "value"), ("path", "value"), "OpReplace"),
    "move": ("move", ("from", "path"), ("from_", "path"), "OpMove"),
    "copy": ("copy", ("from", "path"), ("from_", "path"), "OpCopy"),
    "test": ("test", ("path", "value"), ("path", "value"), "OpTest"),
}


def new_patch(it, ue, ud):
    ops = it.alloc(list, {"v": S.mk_list([])}, origin="PATCH")
    return it.alloc(pm.JSONPatch, {"ops": ops, "unicode_escape": Py.bool(ue), "uri_decode": Py.bool(ud)}, origin="PATCH")


def op_dict(kind, members, vals):
    keys = [S.mk_str("op")] + [S.mk_str(m) for m in members]
    values = [S.mk_str(kind)] + [vals[m] for m in members]
    return Py.dict(S.mk_seq(keys), S.mk_seq(values))


def callers_list_untouched(o):
    from contracts.purity import write_items

    bad = [w for w in write_items(o.trace) if (w[0] == "write" and w[1] == "CALLER") or (w[0] == "mutate" and w[2] == "CALLER")]
    if bad:
        return [("frame", [], z3.BoolVal(False), f"stores into the caller's operation list: {bad[:3]}")]
    return [("frame", [], z3.BoolVal(True), "the caller's list and dicts are only read")]


def _functions(kind):
    meth, _, _, cls = KINDS[kind]
    return [
        J + "JSONPatch._build",
        J + "JSONPatch._op_pointer",
        J + "JSONPatch._op_value",
        J + "JSONPatch._ensure_pointer",
        J + f"JSONPatch.{meth}",
        J + "JSONPatch.asdicts",
        J + f"{cls}.asdict" if "asdict" in getattr(pm, cls).__dict__ else J + "OpAdd.asdict",
        "jsonpath.pointer:JSONPointer.__init__",
    ]


def _register(kind):
    meth, members, kwnames, cls = KINDS[kind]

    @contract(f"JSONPatch._build[{kind}]==builder.{meth}", ("C15",), _functions(kind), replay=("patch_build_replay", [kind], "patch_build_candidates"))
    def _c(ctx, kind=kind, meth=meth, members=members, kwnames=kwnames):
        ue, ud = ctx.bool("unicode_escape"), ctx.bool("uri_decode")
        vals = {}
        for m in members:
            if m == "value":
                vals[m] = ctx.json("value")
            else:
                vals[m] = Py.str(ctx.str(m))
        d = op_dict(kind, members, vals)

        def from_document(it):
            it.parse_may_raise = True
            p = new_patch(it, ue, ud)
            # the caller's list and the caller's dict are objects of their own: a store into either is
            # visible in the trace (frame below)
            member = it.alloc(dict, {"v": d}, origin="CALLER")
            listing = it.alloc(list, {"v": S.mk_list([it.obj_term(member)])}, origin="CALLER")
            it.call_method(p, "_build", [listing])
            return it.call_method(p, "asdicts", [])

        def from_builder(it):
            it.parse_may_raise = True
            p = new_patch(it, ue, ud)
            it.call_method(p, meth, [], {k: vals[m] for k, m in zip(kwnames, members)})
            return it.call_method(p, "asdicts", [])

        ctx.equiv(f"_build[{kind}]", from_document, from_builder, post=callers_list_untouched)

        def text(m):
            return Py.str(encode_abs(parse_abs(Py.s(vals[m]), Py.bool(ue), Py.bool(ud))))

        want = op_dict(kind, members, {m: (vals[m] if m == "value" else text(m)) for m in members})

        def post(o):
            if o.kind == "return":
                return [("prints-what-it-was-given", [], S.py_eq(o.value, S.mk_list([want])), "asdicts() == [{op: K, path: text, ...}]")]
            return [("refusal-is-a-patch-error", [], z3.BoolVal(issubclass(o.value.cls, exc.JSONPatchError)), "only JSONPatchError leaves _build")]

        ctx.check_outcomes(f"_build[{kind}]:post", from_document, post, ns="c")

    for missing in members:

        @contract(f"JSONPatch._build[{kind}] without {missing!r}", ("C15",), _functions(kind)[:3], replay=("patch_build_missing_replay", [kind, missing], "patch_build_candidates"))
        def _m(ctx, kind=kind, members=members, missing=missing):
            ue, ud = ctx.bool("unicode_escape"), ctx.bool("uri_decode")
            vals = {}
            for m in members:
                if m == missing:
                    continue
                vals[m] = ctx.json("value") if m == "value" else Py.str(ctx.str(m))
            d = op_dict(kind, [m for m in members if m != missing], vals)

            def run(it):
                it.parse_may_raise = True
                p = new_patch(it, ue, ud)
                it.call_method(p, "_build", [S.mk_list([d])])
                return it.call_method(p, "asdicts", [])

            def post(o):
                if o.kind == "return":
                    return [("refused", [], z3.BoolVal(False), "an operation without a required member must not build")]
                return [("refused-with-patch-error", [], z3.BoolVal(issubclass(o.value.cls, exc.JSONPatchError)), "JSONPatchError")]

            ctx.check_outcomes(f"_build[{kind}] without {missing}", run, post)


for _k in KINDS:
    _register(_k)


@contract("JSONPatch._build[unknown op]", ("C15",), [J + "JSONPatch._build"], replay=("patch_build_unknown_replay", []))
def _unknown(ctx):
    name = ctx.str("op")
    ctx.require(*[name != z3.StringVal(k) for k in KINDS])
    path, value = ctx.str("path"), ctx.json("value")
    d = Py.dict(S.mk_seq([S.mk_str("op"), S.mk_str("path"), S.mk_str("value")]), S.mk_seq([Py.str(name), Py.str(path), value]))

    def run(it):
        it.parse_may_raise = True
        p = new_patch(it, z3.BoolVal(True), z3.BoolVal(False))
        it.call_method(p, "_build", [S.mk_list([d])])
        return it.call_method(p, "asdicts", [])

    def post(o):
        if o.kind == "return":
            return [("refused", [], z3.BoolVal(False), "an unknown operation name must not build")]
        return [("refused-with-patch-error", [], z3.BoolVal(issubclass(o.value.cls, exc.JSONPatchError)), "JSONPatchError")]

    ctx.check_outcomes("_build[unknown]", run, post)


@contract("JSONPatch.apply:frame", ("C15",), [J + "JSONPatch.apply"])
def _apply_frame(ctx):
    """Applying a patch stores nothing into the patch or its list of operations (each operation's own
    frame is part of its `apply` contract in contracts/patch.py; here the operations are abstract)."""
    data = ctx.json("data")
    ctx.require(z3.Not(Py.is_str(data)))

    def run(it):
        ops = [it.alloc(pm.Op, {"name": Py.str(z3.String(f"opname{n}"))}, origin="PATCH", abstract=True) for n in range(2)]
        listing = it.alloc(list, {"v": S.mk_list([it.obj_term(o) for o in ops])}, origin="PATCH")
        patch = it.alloc(pm.JSONPatch, {"ops": listing}, origin="PATCH")
        return it.call_method(patch, "apply", [data])

    def post(o):
        from contracts.purity import write_items

        bad = [w for w in write_items(o.trace) if (w[0] == "write" and w[1] == "PATCH") or (w[0] == "mutate" and w[2] == "PATCH")]
        return [("frame", [], z3.BoolVal(not bad), f"stores into the patch: {bad[:3]}" if bad else "the patch and its operation list are only read")]

    ctx.check_outcomes("JSONPatch.apply:frame", run, post)

"""C18: the three command handlers of jsonpath/cli.py are faithful front ends.

Under contract: `handle_path_command`, `handle_pointer_command`, `handle_patch_command` (the real
bodies).  Outside them everything is a stated abstraction:

  * the library calls (`JSONPathEnvironment(...).compile`, `path.findall`, `jsonpath.pointer.resolve`,
    `jsonpath.patch.apply`, `json.load`) are uninterpreted functions of their arguments that either
    return a value or raise one class of their documented rejection family - which class is chosen by an
    uninterpreted function, so every class of the family is covered on some path;
  * `sys.stderr.write`, `json.dump`, `sys.exit` are recorded effects (`sys.exit(n)` raises SystemExit(n));
  * `args` is an argparse.Namespace whose option fields are arbitrary booleans / strings / files.

Postconditions (taken from the property, for every option combination):
  success      - exactly one `json.dump(<what the library returned>, args.output, indent=2 if pretty else None)`,
                 nothing on standard error, normal return (status 0);
  rejection    - without --debug: SystemExit(1), at least one write to standard error, nothing dumped;
                 with --debug: the library's exception propagates unchanged;
  the library is called with the options the command line gave (unicode_escape = not --no-unicode-escape,
  well_typed = not --no-type-checks, uri_decode = --uri-decode), the expression comes from the inline
  option when given and from the expression file (stripped) otherwise.
"""
from __future__ import annotations

import argparse
import io
import json
import sys

import z3

from contracts.common import method, mod
from pyvc import lib
from pyvc import sorts as S
from pyvc.harness import contract
from pyvc.interp import ExcVal, PyRaise, lookup_function
from pyvc.sorts import Py

cli = mod("jsonpath.cli")
exc = mod("jsonpath.exceptions")
envm = mod("jsonpath.env")
ptrm = mod("jsonpath.pointer")
patchm = mod("jsonpath.patch")
C = "jsonpath.cli:"

STR = z3.StringSort()
compiled = z3.Function("cli_compile", STR, Py, Py, Py)  # (query, unicode_escape, well_typed) -> compiled query
compile_fails = z3.Function("cli_compile_fails", STR, Py, Py, z3.IntSort())
findall_of = z3.Function("cli_findall", Py, Py, Py)  # (compiled query, file) -> list of values
findall_fails = z3.Function("cli_findall_fails", Py, Py, z3.IntSort())
resolved = z3.Function("cli_pointer_resolve", STR, Py, Py, Py, Py)  # (pointer, file, unicode_escape, uri_decode)
resolve_fails = z3.Function("cli_pointer_resolve_fails", STR, Py, Py, Py, z3.IntSort())
patched = z3.Function("cli_patch_apply", Py, Py, Py, Py, Py)  # (ops, file, unicode_escape, uri_decode)
patch_fails = z3.Function("cli_patch_apply_fails", Py, Py, Py, Py, z3.IntSort())
loaded = z3.Function("cli_json_load", Py, Py)
load_fails = z3.Function("cli_json_load_fails", Py, z3.BoolSort())
load_undecodable = z3.Function("cli_json_load_bytes_are_not_text", Py, z3.BoolSort())
file_text = z3.Function("cli_file_text", Py, STR)
text_doc = z3.Function("cli_document_of_text", STR, Py)  # what load_data makes of a string argument
text_fails = z3.Function("cli_document_of_text_fails", STR, z3.BoolSort())

COMPILE_FAMILY = (exc.JSONPathSyntaxError, exc.JSONPathTypeError, exc.JSONPathIndexError, exc.JSONPathNameError)
FINDALL_FAMILY = (exc.JSONPathTypeError,)
POINTER_FAMILY = (exc.JSONPointerError, exc.JSONPointerIndexError, exc.JSONPointerKeyError, exc.JSONPointerTypeError, exc.JSONPointerResolutionError)
PATCH_FAMILY = (exc.JSONPatchError, exc.JSONPatchTestFailure)


def _maybe_raise(it, which, family, what):
    """`which` in 1..len(family) selects the rejection class, anything else means success."""
    for k, cls in enumerate(family):
        if it.branch(which == k + 1):
            e = ExcVal(cls, [S.mk_str(f"<{what}: {cls.__name__}>")], {"token": S.NONE} if issubclass(cls, exc.JSONPathError) else None)
            it.trace.append(("effect", "library-raises", cls.__name__))
            raise PyRaise(e)


def _doc(it, arg):
    """The document a library call sees: a file is decoded (or rejected as undecodable), anything else
    is the document itself - so handing the library the file or its decoded content is the same call."""
    t = it.to_term(arg)
    if it.branch(Py.is_obj(t)):
        if it.branch(load_fails(t)):
            it.trace.append(("effect", "library-raises", "JSONDecodeError"))
            raise PyRaise(ExcVal(json.JSONDecodeError, [S.mk_str("<target document>")]))
        if it.branch(load_undecodable(t)):
            # the file is read in binary: bytes that are no UTF-8/16/32 text are "undecodable" too
            it.trace.append(("effect", "library-raises", "UnicodeDecodeError"))
            raise PyRaise(ExcVal(UnicodeDecodeError, [S.mk_str("<target document bytes>")]))
        it.assume(S.json_value(loaded(t)))
        return loaded(t)
    v = lib.T(it, arg)
    if it.branch(Py.is_str(v)):
        # a string handed to the library is JSON text (or a bare string document): decoded again
        if it.branch(text_fails(Py.s(v))):
            it.trace.append(("effect", "library-raises", "JSONDecodeError"))
            raise PyRaise(ExcVal(json.JSONDecodeError, [S.mk_str("<target document text>")]))
        return text_doc(Py.s(v))
    return v


def _file(it, name):
    """A file object of the command line: identity only, plus `read()` for expression files."""
    f = it.alloc(io.StringIO, {}, origin="CALLER")
    t = it.obj_term(f)
    f.fields["read"] = lib.Builtin("read", lambda it_, a, k: Py.str(file_text(t)))
    return f


def _install(it):
    """The world outside the handlers."""

    def stderr_write(it_, a, k):
        it_.trace.append(("effect", "stderr", lib.T(it_, a[0])))
        return S.NONE

    stderr = it.alloc(io.StringIO, {"write": lib.Builtin("stderr.write", stderr_write)}, origin="CALLER")

    def sys_exit(it_, a, k):
        code = lib.T(it_, a[0]) if a else S.NONE
        it_.trace.append(("effect", "exit", code))
        raise PyRaise(ExcVal(SystemExit, [code]))

    def json_dump(it_, a, k):
        it_.trace.append(("effect", "dump", lib.T(it_, a[0]), it_.to_term(a[1]), lib.T(it_, k.get("indent", S.NONE))))
        return S.NONE

    def json_load(it_, a, k):
        return _doc(it_, a[0])

    def make_env(it_, a, k):
        ue, wt = lib.T(it_, k.get("unicode_escape", S.TRUE)), lib.T(it_, k.get("well_typed", S.TRUE))
        env = it_.alloc(envm.JSONPathEnvironment, {}, origin="QUERY", abstract=True)

        def compile_(it2, a2, k2):
            q = lib.T(it2, a2[0])
            if not it2.branch(Py.is_str(q)):
                it2.raise_(TypeError, "query must be a string")
            it2.trace.append(("effect", "compile", q, ue, wt))
            _maybe_raise(it2, compile_fails(Py.s(q), ue, wt), COMPILE_FAMILY, "compile")
            path = it2.alloc(mod("jsonpath.path").JSONPath, {}, origin="QUERY", abstract=True)
            pt = compiled(Py.s(q), ue, wt)

            def findall(it3, a3, k3):
                f = _doc(it3, a3[0])
                _maybe_raise(it3, findall_fails(pt, f), FINDALL_FAMILY, "findall")
                return findall_of(pt, f)

            path.fields["findall"] = lib.Builtin("findall", findall)
            return path

        env.fields["compile"] = lib.Builtin("compile", compile_)
        return env

    def pointer_resolve(it_, a, k):
        p, f = lib.T(it_, a[0]), _doc(it_, a[1])
        ue, ud = lib.T(it_, k.get("unicode_escape", S.TRUE)), lib.T(it_, k.get("uri_decode", S.FALSE))
        if not it_.branch(Py.is_str(p)):
            it_.raise_(TypeError, "pointer must be a string")
        it_.trace.append(("effect", "resolve", p, f, ue, ud))
        _maybe_raise(it_, resolve_fails(Py.s(p), f, ue, ud), POINTER_FAMILY, "resolve")
        return resolved(Py.s(p), f, ue, ud)

    def patch_apply(it_, a, k):
        ops, f = lib.T(it_, a[0]), _doc(it_, a[1])
        ue, ud = lib.T(it_, k.get("unicode_escape", S.TRUE)), lib.T(it_, k.get("uri_decode", S.FALSE))
        it_.trace.append(("effect", "apply", ops, f, ue, ud))
        _maybe_raise(it_, patch_fails(ops, f, ue, ud), PATCH_FAMILY, "apply")
        return patched(ops, f, ue, ud)

    it.externals = {
        id(sys.stderr): stderr,
        id(sys.exit): lib.Builtin("sys.exit", sys_exit),
        id(json.dump): lib.Builtin("json.dump", json_dump),
        id(json.load): lib.Builtin("json.load", json_load),
        id(envm.JSONPathEnvironment): lib.Builtin("JSONPathEnvironment", make_env),
        id(ptrm.resolve): lib.Builtin("pointer.resolve", pointer_resolve),
        id(patchm.apply): lib.Builtin("patch.apply", patch_apply),
    }


def _effects(o, kind):
    return [x for x in o.trace if x[0] == "effect" and x[1] == kind]


def _front_end_post(ctx, debug, pretty, output_of, expected_call):
    """Postcondition shared by the three handlers; `expected_call(o)` -> obligations on the library call."""

    def post(o):
        out = []
        dumps, errs, raised = _effects(o, "dump"), _effects(o, "stderr"), _effects(o, "library-raises")
        if o.kind == "return":
            out.append(("success:no-rejection-swallowed", [], z3.BoolVal(not raised), "a library rejection must not end in a normal return"))
            out.append(("success:one-dump", [], z3.BoolVal(len(dumps) == 1 and not errs), f"exactly one json.dump and nothing on stderr (dumps={len(dumps)}, stderr writes={len(errs)})"))
            if len(dumps) == 1:
                _, _, value, target, indent = dumps[0]
                out.append(("success:dumps-to-output", [], target == output_of(o), "the result goes to args.output"))
                out.append(("success:indent", [], indent == z3.If(pretty, S.mk_int(cli.INDENT), S.NONE), "indent is INDENT exactly when --pretty"))
                out.extend(expected_call(o, value))
        else:
            e = o.value
            if raised:
                cls = raised[0][2]
                # with --debug the library's exception propagates; without it: one-line message, status 1
                is_exit = e.cls is SystemExit
                out.append(("rejection:no-output", [], z3.BoolVal(not dumps), "nothing is dumped when the library rejects the input"))
                out.append((f"rejection:{cls}:debug-propagates", [debug], z3.BoolVal(not is_exit and e.cls.__name__ == cls), f"--debug: {cls} must propagate (got {e.cls.__name__})"))
                out.append((f"rejection:{cls}:exit-1", [z3.Not(debug)], z3.BoolVal(is_exit and len(errs) >= 1), f"no --debug: SystemExit after a message on stderr (got {e.cls.__name__}, stderr writes={len(errs)})"))
                if is_exit:
                    out.append((f"rejection:{cls}:status", [z3.Not(debug)], e.args[0] == S.mk_int(1), "exit status 1"))
            else:
                # not a library rejection: the handler's own refusals (a patch file that is not an array)
                is_exit = e.cls is SystemExit
                out.append(("refusal:exit-1", [], z3.BoolVal(is_exit and len(errs) >= 1 and not dumps), f"a refusal is a message on stderr and SystemExit (got {e.cls.__name__})"))
                if is_exit:
                    out.append(("refusal:status", [], e.args[0] == S.mk_int(1), "exit status 1"))
        return out

    return post


def _namespace(it, fields):
    return it.alloc(argparse.Namespace, dict(fields), origin="CALLER")


@contract("cli.handle_path_command:front-end", ("C18",), [C + "handle_path_command"], replay=("cli_replay", ["path"]))
def _path(ctx):
    debug, pretty = ctx.bool("debug"), ctx.bool("pretty")
    nue, ntc = ctx.bool("no_unicode_escape"), ctx.bool("no_type_checks")
    inline = ctx.bool("query_given_inline")
    query = ctx.str("query")
    holder = {}

    def run(it):
        _install(it)
        f, out, qf = _file(it, "file"), _file(it, "output"), _file(it, "path_file")
        holder["file"], holder["output"], holder["qf"] = it.obj_term(f), it.obj_term(out), it.obj_term(qf)
        ns = _namespace(
            it,
            {
                "query": z3.If(inline, Py.str(query), S.NONE),
                "path_file": qf,
                "no_unicode_escape": Py.bool(nue),
                "no_type_checks": Py.bool(ntc),
                "debug": Py.bool(debug),
                "pretty": Py.bool(pretty),
                "file": f,
                "output": out,
            },
        )
        return it.run_function(lookup_function(cli.handle_path_command), [ns], {})

    def expected(o, value):
        calls = _effects(o, "compile")
        if len(calls) != 1:
            return [("success:one-compile", [], z3.BoolVal(False), f"compile called {len(calls)} times")]
        _, _, q, ue, wt = calls[0]
        obl = [
            ("success:options", [], z3.And(ue == Py.bool(z3.Not(nue)), wt == Py.bool(z3.Not(ntc))), "unicode_escape = not --no-unicode-escape, well_typed = not --no-type-checks"),
            ("success:inline-query", [inline], q == Py.str(query), "the inline query is the one compiled"),
            ("success:value", [], value == findall_of(compiled(Py.s(q), ue, wt), loaded(holder["file"])), "what is dumped is path.findall(args.file) of the compiled query"),
        ]
        return obl

    ctx.check_outcomes("handle_path_command", run, _front_end_post(ctx, debug, pretty, lambda o: holder["output"], expected))


@contract("cli.handle_pointer_command:front-end", ("C18",), [C + "handle_pointer_command"], replay=("cli_replay", ["pointer"]))
def _pointer(ctx):
    debug, pretty = ctx.bool("debug"), ctx.bool("pretty")
    nue, ud = ctx.bool("no_unicode_escape"), ctx.bool("uri_decode")
    inline = ctx.bool("pointer_given_inline")
    pointer = ctx.str("pointer")
    holder = {}

    def run(it):
        _install(it)
        f, out, pf = _file(it, "file"), _file(it, "output"), _file(it, "pointer_file")
        holder["file"], holder["output"], holder["pf"] = it.obj_term(f), it.obj_term(out), it.obj_term(pf)
        ns = _namespace(
            it,
            {
                "pointer": z3.If(inline, Py.str(pointer), S.NONE),
                "pointer_file": pf,
                "no_unicode_escape": Py.bool(nue),
                "uri_decode": Py.bool(ud),
                "debug": Py.bool(debug),
                "pretty": Py.bool(pretty),
                "file": f,
                "output": out,
            },
        )
        return it.run_function(lookup_function(cli.handle_pointer_command), [ns], {})

    def expected(o, value):
        calls = _effects(o, "resolve")
        if len(calls) != 1:
            return [("success:one-resolve", [], z3.BoolVal(False), f"resolve called {len(calls)} times")]
        _, _, p, f, ue, udv = calls[0]
        return [
            ("success:options", [], z3.And(ue == Py.bool(z3.Not(nue)), udv == Py.bool(ud), f == loaded(holder["file"])), "unicode_escape = not --no-unicode-escape, uri_decode = --uri-decode, the document is the content of args.file"),
            ("success:inline-pointer", [inline], p == Py.str(pointer), "the inline pointer is the one resolved"),
            ("success:value", [], value == resolved(Py.s(p), f, ue, udv), "what is dumped is jsonpath.pointer.resolve(...)"),
        ]

    ctx.check_outcomes("handle_pointer_command", run, _front_end_post(ctx, debug, pretty, lambda o: holder["output"], expected))


@contract("cli.handle_patch_command:front-end", ("C18",), [C + "handle_patch_command"], replay=("cli_replay", ["patch"]))
def _patch(ctx):
    debug, pretty = ctx.bool("debug"), ctx.bool("pretty")
    nue, ud = ctx.bool("no_unicode_escape"), ctx.bool("uri_decode")
    holder = {}

    def run(it):
        _install(it)
        f, out, pf = _file(it, "file"), _file(it, "output"), _file(it, "patch")
        holder["file"], holder["output"], holder["pf"] = it.obj_term(f), it.obj_term(out), it.obj_term(pf)
        ns = _namespace(
            it,
            {"patch": pf, "no_unicode_escape": Py.bool(nue), "uri_decode": Py.bool(ud), "debug": Py.bool(debug), "pretty": Py.bool(pretty), "file": f, "output": out},
        )
        return it.run_function(lookup_function(cli.handle_patch_command), [ns], {})

    def expected(o, value):
        calls = _effects(o, "apply")
        if len(calls) != 1:
            return [("success:one-apply", [], z3.BoolVal(False), f"apply called {len(calls)} times")]
        _, _, ops, f, ue, udv = calls[0]
        return [
            ("success:options", [], z3.And(ue == Py.bool(z3.Not(nue)), udv == Py.bool(ud), f == loaded(holder["file"])), "unicode_escape = not --no-unicode-escape, uri_decode = --uri-decode, the document is the content of args.file"),
            ("success:patch-document", [], ops == loaded(holder["pf"]), "the operations are the decoded patch file"),
            ("success:value", [], value == patched(ops, f, ue, udv), "what is dumped is jsonpath.patch.apply(...)"),
        ]

    ctx.check_outcomes("handle_patch_command", run, _front_end_post(ctx, debug, pretty, lambda o: holder["output"], expected))

"""C07: the typing rules of RFC 9535 2.4.3 on the three functions that implement them -
`JSONPathEnvironment.check_well_typedness` (function arguments), `Parser._raise_for_uncompared`
(what may stand as a test) and `Parser._raise_for_non_comparable_function` (what may be compared).

These functions depend on their arguments only through the expression's class, the singularity of an
embedded query and the declared types of the registered function - so the case split over argument
*kinds* below is exhaustive: each case is explored symbolically (the singularity flag is a symbolic
boolean, the literal / query contents are arbitrary), and the expected verdict is computed by the
independent statement of the rules in specs/typing9535.py."""
from __future__ import annotations

import itertools

import z3

import specs.typing9535 as tspec
from contracts.common import env_obj, method, mod
from pyvc import lib
from pyvc import sorts as S
from pyvc.harness import contract
from pyvc.sorts import Py

flt = mod("jsonpath.filter")
envm = mod("jsonpath.env")
parsem = mod("jsonpath.parse")
exc = mod("jsonpath.exceptions")
pathm = mod("jsonpath.path")
fx = {
    "length": mod("jsonpath.function_extensions.length").Length,
    "count": mod("jsonpath.function_extensions.count").Count,
    "match": mod("jsonpath.function_extensions.match").Match,
    "search": mod("jsonpath.function_extensions.search").Search,
    "value": mod("jsonpath.function_extensions.value").Value,
}

# argument kinds: (label, spec kind, declared result type of a function argument)
ARG_KINDS = [
    ("string literal", "literal", None),
    ("integer literal", "literal", None),
    ("boolean literal", "literal", None),
    ("nil", "literal", None),
    ("relative query", "query", None),
    ("root query", "query", None),
    ("comparison", "logical", None),
    ("negation", "logical", None),
] + [(f"{n}()", "function", tspec.SIGNATURES[n][1]) for n in fx]


def _functions(it):
    """env.function_extensions: the five standard functions (real classes, their declared types)."""
    objs = {n: it.alloc(c, {}, origin="QUERY") for n, c in fx.items()}
    keys = [S.mk_str(n) for n in objs]
    vals = [it.obj_term(o) for o in objs.values()]
    return Py.dict(S.mk_seq(keys), S.mk_seq(vals))


def _expr(it, env, label, singular):
    """An expression object of the given kind; an embedded query's singularity is the symbolic flag."""
    if label == "string literal":
        return it.alloc(flt.StringLiteral, {"value": Py.str(z3.String("lit!s"))}, origin="QUERY")
    if label == "integer literal":
        return it.alloc(flt.IntegerLiteral, {"value": Py.int(z3.Int("lit!i"))}, origin="QUERY")
    if label == "boolean literal":
        return it.alloc(flt.BooleanLiteral, {"value": Py.bool(z3.Bool("lit!b"))}, origin="QUERY")
    if label == "nil":
        return it.alloc(flt.Nil, {}, origin="QUERY")
    if label in ("relative query", "root query"):
        p = it.alloc(pathm.JSONPath, {"env": env}, origin="QUERY")
        p.fields["singular_query"] = lib.Builtin("singular_query", lambda it_, a, k: Py.bool(singular))
        return it.alloc(flt.SelfPath if label == "relative query" else flt.RootPath, {"path": p}, origin="QUERY")
    if label == "comparison":
        return it.alloc(flt.InfixExpression, {"operator": S.mk_str("=="), "logical": S.FALSE}, origin="QUERY")
    if label == "negation":
        return it.alloc(flt.PrefixExpression, {"operator": S.mk_str("!")}, origin="QUERY")
    name = label[:-2]
    return it.alloc(flt.FunctionExtension, {"name": S.mk_str(name), "args": S.mk_list([])}, origin="QUERY")


def _token(it):
    return it.alloc(mod("jsonpath.token").Token, {"value": Py.str(z3.String("tok!value")), "kind": S.mk_str("TOKEN_FUNCTION"), "index": S.mk_int(0), "path": S.mk_str("")}, origin="QUERY")


def _verdict(label, want_ok, families):
    """Postcondition: accepted (normal return) exactly when the rules accept; a refusal is one of `families`."""

    def post(o):
        if o.kind == "return":
            return [(f"{label}:accepted", [], want_ok, "accepted, so the rules must accept it")]
        cls = o.value.cls
        return [
            (f"{label}:refused", [], z3.Not(want_ok), f"refused with {cls.__name__}, so the rules must refuse it"),
            (f"{label}:refusal-class", [], z3.BoolVal(issubclass(cls, families)), f"a refusal is a JSONPath type/syntax error, got {cls.__name__}"),
        ]

    return post


def _register_call(name):
    @contract(f"env.check_well_typedness[{name}]", ("C07",), ["jsonpath.env:JSONPathEnvironment.check_well_typedness", "jsonpath.env:JSONPathEnvironment._function_return_type"])
    def _c(ctx, name=name):
        flags = [ctx.bool(f"arg{k}_singular") for k in range(3)]
        arity = len(tspec.SIGNATURES[name][0])
        shapes = [()] + [s for n in (1, 2) for s in itertools.product(ARG_KINDS, repeat=n)]
        if arity == 1:
            shapes = [s for s in shapes if len(s) <= 1] + [s for s in shapes if len(s) == 2][:12]
        shapes.append((ARG_KINDS[0], ARG_KINDS[4], ARG_KINDS[0]))
        for shape in shapes:
            labels = [a[0] for a in shape]

            def run(it, labels=labels):
                env = env_obj(it, well_typed=S.TRUE)
                env.fields["function_extensions"] = _functions(it)
                args = [_expr(it, env, lab, flags[k]) for k, lab in enumerate(labels)]
                func = it.alloc(fx[name], {}, origin="QUERY")
                it.run_function(method(envm.JSONPathEnvironment, "check_well_typedness"), [env, _token(it), func, S.mk_list([it.obj_term(a) for a in args])], {})
                return S.NONE

            # the independent verdict, symbolic in the singularity flags
            params = tspec.SIGNATURES[name][0]
            if len(shape) != len(params):
                want = z3.BoolVal(False)
            else:
                parts = []
                for k, (p, (lab, kind, res)) in enumerate(zip(params, shape)):
                    if kind == "query":
                        parts.append(z3.And(flags[k]) if not tspec.argument_ok(p, kind, False, res) and tspec.argument_ok(p, kind, True, res) else z3.BoolVal(tspec.argument_ok(p, kind, False, res)))
                    else:
                        parts.append(z3.BoolVal(tspec.argument_ok(p, kind, False, res)))
                want = z3.And(*parts) if parts else z3.BoolVal(True)
            ctx.check_outcomes(f"{name}({', '.join(labels)})", run, _verdict(f"{name}({', '.join(labels)})", want, (exc.JSONPathTypeError,)), ns="t")


for _n in fx:
    _register_call(_n)


def _parser(it, env):
    return it.alloc(parsem.Parser, {"env": env}, origin="QUERY")


@contract("Parser._raise_for_uncompared:typing", ("C07",), ["jsonpath.parse:Parser._raise_for_uncompared"])
def _uncompared(ctx):
    """What may stand as a test (whole filter, operand of !, && and ||): not a literal, not a ValueType result."""
    flag = ctx.bool("singular")
    for lab, kind, res in ARG_KINDS:

        def run(it, lab=lab):
            env = env_obj(it, well_typed=S.TRUE)
            env.fields["function_extensions"] = _functions(it)
            it.run_function(method(parsem.Parser, "_raise_for_uncompared"), [_parser(it, env), _expr(it, env, lab, flag), _token(it)], {})
            return S.NONE

        want = z3.BoolVal(tspec.usable_as_test(kind, res))
        ctx.check_outcomes(f"test position: {lab}", run, _verdict(lab, want, (exc.JSONPathTypeError, exc.JSONPathSyntaxError)), ns="t")


@contract("Parser._raise_for_non_comparable_function:typing", ("C07",), ["jsonpath.parse:Parser._raise_for_non_comparable_function"])
def _non_comparable(ctx):
    """What may be an operand of a comparison among queries and function results: singular queries and
    ValueType results (literals are comparable and never reach a refusal here)."""
    flag = ctx.bool("singular")
    for lab, kind, res in ARG_KINDS:
        if kind == "logical":
            continue  # the grammar never offers a logical expression as a comparison operand

        def run(it, lab=lab):
            env = env_obj(it, well_typed=S.TRUE)
            env.fields["function_extensions"] = _functions(it)
            it.run_function(method(parsem.Parser, "_raise_for_non_comparable_function"), [_parser(it, env), _expr(it, env, lab, flag), _token(it)], {})
            return S.NONE

        want = flag if kind == "query" else z3.BoolVal(tspec.comparable(kind, False, res))
        ctx.check_outcomes(f"comparison operand: {lab}", run, _verdict(lab, want, (exc.JSONPathTypeError,)), ns="t")

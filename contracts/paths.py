"""Contracts of jsonpath/path.py, jsonpath/env.py entry points and jsonpath/_data.py (C11, C13, C01)."""
from __future__ import annotations

import z3

import specs.rfc9535_filter as fspec
from contracts.common import env_obj, method, mod, spec_fn
from pyvc import lib
from pyvc import sorts as S
from pyvc.harness import contract
from pyvc.sorts import Py

pathm = mod("jsonpath.path")
PA = "jsonpath.path:JSONPath."


def path_obj(it, sels, fake):
    return it.alloc(pathm.JSONPath, {"env": env_obj(it), "selectors": Py.tuple(sels), "fake_root": Py.bool(fake)}, origin="QUERY")


def _finditer_setup(ctx):
    sels = ctx.seq("selectors")
    fake = ctx.bool("fake_root")
    data = ctx.json("data")
    fc = ctx.val("filter_context")
    ctx.require(z3.Not(Py.is_str(data)), z3.Or(Py.is_none(fc), z3.And(Py.is_dict(fc), S.json_value(fc))))

    def mk(it):
        it.elem_facts = [(sels, lambda e: Py.is_obj(e))]
        return path_obj(it, sels, fake)

    return mk, data, fc


@contract("JSONPath.finditer==fold(resolve)", ("C01", "C11", "C13"), [PA + "finditer", "jsonpath._data:load_data"])
def _finditer(ctx):
    """finditer(data, filter_context) is the fold of selector.resolve over the segments, started from
    the single root node: value = data (wrapped in a one-element array for the fake root), root = data,
    location = (), filter context = the caller's mapping (or an empty one)."""
    mk, data, fc = _finditer_setup(ctx)
    empty = Py.dict(S.EmptySeq, S.EmptySeq)
    ctx.equiv(
        "finditer",
        lambda it: it.run_function(method(pathm.JSONPath, "finditer"), [mk(it), data], {"filter_context": fc}),
        lambda it: it.run_function(spec_fn(fspec, "query_nodes"), [mk(it), data, data, z3.If(S.truthy(fc), fc, empty)], {}),
    )


@contract("JSONPath.finditer_async==finditer", ("C08",), [PA + "finditer", PA + "finditer_async"])
def _finditer_twin(ctx):
    mk, data, fc = _finditer_setup(ctx)
    ctx.equiv(
        "finditer_async",
        lambda it: it.run_function(method(pathm.JSONPath, "finditer_async"), [mk(it), data], {"filter_context": fc}),
        lambda it: it.run_function(method(pathm.JSONPath, "finditer"), [mk(it), data], {"filter_context": fc}),
    )


# ------------------------------------------------------------------ findall / match on a compiled query (C11)

import contracts.filternodes  # noqa: E402,F401  (registers the finditer call contract)


def _data_inputs(ctx):
    sels = ctx.seq("selectors")
    fake = ctx.bool("fake_root")
    data = ctx.json("data")
    fc = ctx.val("filter_context")
    ctx.require(z3.Not(Py.is_str(data)), z3.Or(Py.is_none(fc), z3.And(Py.is_dict(fc), S.json_value(fc))))
    return (lambda it: path_obj(it, sels, fake)), data, fc


@contract("JSONPath.findall==values(finditer)", ("C11",), [PA + "findall"])
def _findall(ctx):
    mk, data, fc = _data_inputs(ctx)
    ctx.equiv(
        "findall",
        lambda it: it.run_function(method(pathm.JSONPath, "findall"), [mk(it), data], {"filter_context": fc}),
        lambda it: it.run_function(spec_fn(fspec, "findall_of"), [mk(it), data, fc], {}),
    )
    ctx.equiv(
        "findall_async",
        lambda it: it.run_function(method(pathm.JSONPath, "findall_async"), [mk(it), data], {"filter_context": fc}),
        lambda it: it.run_function(spec_fn(fspec, "findall_of"), [mk(it), data, fc], {}),
    )


@contract("JSONPath.match==first(finditer)", ("C11",), [PA + "match"])
def _match(ctx):
    mk, data, fc = _data_inputs(ctx)
    ctx.equiv(
        "match",
        lambda it: it.run_function(method(pathm.JSONPath, "match"), [mk(it), data], {"filter_context": fc}),
        lambda it: it.run_function(spec_fn(fspec, "match_of"), [mk(it), data, fc], {}),
    )


# ------------------------------------------------------------------ the three document forms (C11)

def _text_inputs(ctx):
    sels = ctx.seq("selectors")
    fake = ctx.bool("fake_root")
    text = ctx.str("text")
    fc = ctx.val("filter_context")
    parsed = lib.json_loads(text)
    # scope of the statement: JSON text of an array or an object
    ctx.require(lib.json_ok(text), z3.Or(Py.is_list(parsed), Py.is_dict(parsed)), z3.Or(Py.is_none(fc), z3.And(Py.is_dict(fc), S.json_value(fc))))

    def mk(it):
        it.elem_facts = [(sels, lambda e: Py.is_obj(e))]
        return path_obj(it, sels, fake)

    def as_file(it):
        import io

        # a readable file: the first read() returns the text, later ones the empty string (the only
        # thing load_data asks of it)
        f = it.alloc(io.StringIO, {"consumed": S.FALSE}, origin="CALLER")

        def read(it_, a, k, f=f):
            was = f.fields["consumed"]
            f.fields["consumed"] = S.TRUE
            return Py.str(text) if z3.is_false(z3.simplify(Py.b(was))) else S.mk_str("")

        f.fields["read"] = lib.Builtin("read", read)
        return f

    return mk, text, parsed, fc, as_file


def _register_forms(meth):
    @contract(f"JSONPath.{meth}[text|file]=={meth}[parsed]", ("C11", "C08"), [PA + meth, "jsonpath._data:load_data"], replay=("document_forms_replay", [meth], "document_forms_candidates"))
    def _c(ctx, meth=meth):
        mk, text, parsed, fc, as_file = _text_inputs(ctx)

        def run(it, doc):
            # the real finditer / finditer_async bodies (not their contracts, which are stated for parsed values)
            it.inline = {"jsonpath.path:JSONPath.finditer", "jsonpath.path:JSONPath.finditer_async"}
            v = it.run_function(method(pathm.JSONPath, meth), [mk(it), doc], {"filter_context": fc})
            return Py.list(lib.seq_of(it, v)) if "iter" in meth else v

        def on_parsed(it):
            it.assume(S.json_value(parsed))
            return run(it, parsed)

        ctx.equiv(f"{meth}[text]", lambda it: run(it, Py.str(text)), on_parsed)
        ctx.equiv(f"{meth}[file]", lambda it: run(it, as_file(it)), on_parsed)


for _m in ("finditer", "findall", "match", "finditer_async", "findall_async"):
    _register_forms(_m)


# ------------------------------------------------------------------ environment-level forms delegate to compile() (C11)

envm = mod("jsonpath.env")
path_call = {name: z3.Function(f"path_{name}", Py, Py, Py, Py) for name in ("findall", "finditer", "match", "query", "findall_async", "finditer_async")}
compile_abs = z3.Function("env_compile", Py, Py)


def _install_abstract_path_methods():
    def mk(name):
        def f(it, v, a, k):
            fc = k.get("filter_context", S.NONE)
            it.assumed.append("contract:compiled query methods are abstract in the delegation obligations")
            # an operand's async method computes what its sync twin computes (JSONPath.finditer_async==finditer,
            # JSONPath.findall==values(finditer), proved in this file): one function for both
            r = path_call[name.replace("_async", "")](v, lib.T(it, a[0]), lib.T(it, fc))
            if name.startswith("findall"):
                it.assume(Py.is_list(r))  # a list of values
            elif name.startswith("finditer"):
                # the nodes it yields, as the sequence they come in (the operands are pure: when they
                # are consumed does not matter)
                from contracts.common import match_facts

                from pyvc.interp import GenVal

                it.assume(Py.is_list(r))
                it.elem_facts = getattr(it, "elem_facts", []) + [(Py.items(r), match_facts)]
                return GenVal([("yieldfrom", Py.items(r))])
            return r

        return f

    for name in path_call:
        lib.ABSTRACT_METHODS.setdefault(name, mk(name))


_install_abstract_path_methods()


def _register_env(name):
    @contract(f"JSONPathEnvironment.{name}==compile().{name}", ("C11",), [f"jsonpath.env:JSONPathEnvironment.{name}"])
    def _c(ctx, name=name):
        text = ctx.str("path")
        data = ctx.val("data")
        fc = ctx.val("filter_context")

        def mk(it):
            env = env_obj(it)
            # compile() is abstract: an arbitrary compiled query object determined by the text
            env.fields["compile"] = lib.Builtin("compile", lambda it_, a, k: _abstract_path(it_, a[0]))
            return env

        ctx.equiv(
            name,
            lambda it: it.run_function(method(envm.JSONPathEnvironment, name), [mk(it), Py.str(text), data], {"filter_context": fc}),
            lambda it: it.run_function(spec_fn(fspec, "env_" + name.replace("_async", "")), [mk(it), Py.str(text), data, fc], {}) if not name.endswith("_async") else _async_spec(it, mk(it), name, Py.str(text), data, fc),
        )


def _abstract_path(it, text):
    key = ("abstract-path", z3.simplify(it.to_term(text)).sexpr())
    if key not in it.singletons:
        o = it.alloc(pathm.JSONPath, {}, origin="QUERY", abstract=True)
        it.singletons[key] = (o.ref, o)
    return it.singletons[key][1]


def _async_spec(it, env, name, text, data, fc):
    p = _abstract_path(it, text)
    return it.call_method(p, name, [data], {"filter_context": fc})


def _register_env_file(name):
    @contract(f"JSONPathEnvironment.{name}[file]==compile().{name}", ("C11",), [f"jsonpath.env:JSONPathEnvironment.{name}"])
    def _c(ctx, name=name):
        """A file-like document is handed to the compiled query as it is (the compiled query decodes it,
        whatever mode it was opened in): the environment-level form neither reads nor replaces it."""
        text = ctx.str("path")
        fc = ctx.val("filter_context")

        def mk(it):
            import io

            env = env_obj(it)
            env.fields["compile"] = lib.Builtin("compile", lambda it_, a, k: _abstract_path(it_, a[0]))
            f = it.alloc(io.BytesIO, {}, origin="CALLER")
            f.fields["read"] = lib.Builtin("read", lambda it_, a, k: S.mk_str("<what read() returns>"))
            return env, f

        def code(it):
            env, f = mk(it)
            return it.run_function(method(envm.JSONPathEnvironment, name), [env, Py.str(text), f], {"filter_context": fc})

        def spec(it):
            env, f = mk(it)
            if name.endswith("_async"):
                return _async_spec(it, env, name, Py.str(text), f, fc)
            return it.run_function(spec_fn(fspec, "env_" + name), [env, Py.str(text), f, fc], {})

        ctx.equiv(name + "[file]", code, spec)


for _n in ("findall", "finditer", "match", "findall_async", "finditer_async"):  # query(): Query(iter(...)) - bounded in monitors/c11.py
    _register_env(_n)
    _register_env_file(_n)

"""Contracts of jsonpath/selectors.py: every `resolve` against the RFC 9535 node-level spec
(C01, C03, C13, C20) and against its `resolve_async` twin (C08)."""
from __future__ import annotations

import z3

import specs.rfc9535 as spec
from contracts.common import env_obj, matches_iter, method, mod, spec_fn
from contracts import replay as R
from pyvc import sorts as S
from pyvc.harness import contract
from pyvc.sorts import Py

sel = mod("jsonpath.selectors")
M = "jsonpath.selectors:"


def opt_int(ctx, name):
    """An Optional[int] parameter: None or an int."""
    v = ctx.val(name)
    ctx.require(z3.Or(Py.is_none(v), Py.is_int(v)))
    return v


# ------------------------------------------------------------------ builders of `self`

def mk_property(ctx):
    name = ctx.str("name")
    return lambda it: it.alloc(sel.PropertySelector, {"env": env_obj(it), "name": Py.str(name), "shorthand": S.FALSE}, origin="QUERY"), [Py.str(name)]


def mk_index(ctx):
    index = ctx.int("index")
    return (
        lambda it: it.alloc(
            sel.IndexSelector,
            {"env": env_obj(it), "index": Py.int(index), "_as_key": Py.str(S.int_to_str(index))},
            origin="QUERY",
        ),
        [Py.int(index)],
    )


def mk_wild(ctx):
    return lambda it: it.alloc(sel.WildSelector, {"env": env_obj(it), "shorthand": S.FALSE}, origin="QUERY"), []


def mk_slice(ctx):
    from pyvc.interp import SliceVal

    start, stop, step = opt_int(ctx, "start"), opt_int(ctx, "stop"), opt_int(ctx, "step")
    return (
        lambda it: it.alloc(sel.SliceSelector, {"env": env_obj(it), "slice": SliceVal(start, stop, step)}, origin="QUERY"),
        [start, stop, step],
    )


def mk_descent(ctx):
    return lambda it: it.alloc(sel.RecursiveDescentSelector, {"env": env_obj(it)}, origin="QUERY"), []


def mk_keys(ctx):
    tok = ctx.str("keys_selector_token")
    return (
        lambda it: it.alloc(sel.KeysSelector, {"env": env_obj(it, keys_selector_token=Py.str(tok)), "shorthand": S.FALSE}, origin="QUERY"),
        [Py.str(tok)],
    )


def mk_list(ctx):
    items = ctx.seq("items")
    def mk(it):
        # every item is a selector object (dynamic dispatch goes to the abstract resolve contract)
        it.elem_facts = [(items, lambda e: Py.is_obj(e))]
        return it.alloc(sel.ListSelector, {"env": env_obj(it), "items": Py.tuple(items)}, origin="QUERY")

    def args(it=None):
        return [Py.tuple(items)]

    return mk, [Py.tuple(items)]


SELECTORS = {
    "PropertySelector": (mk_property, "name_segment", ("C01", "C03", "C20")),
    "IndexSelector": (mk_index, "index_segment", ("C01", "C03", "C20")),
    "WildSelector": (mk_wild, "wildcard_segment", ("C01", "C03", "C20")),
    "SliceSelector": (mk_slice, "slice_segment", ("C01", "C03", "C20")),
    "RecursiveDescentSelector": (mk_descent, "descendant_segment", ("C01", "C03")),
    "KeysSelector": (mk_keys, "keys_segment", ("C13",)),
    "ListSelector": (mk_list, "list_segment", ("C01",)),
}


def _register(clsname, mk, specname, props):
    cls = getattr(sel, clsname)

    @contract(f"{clsname}.resolve==spec", props, [M + f"{clsname}.resolve"], replay=("selector_replay", [clsname, "sync"]))
    def _spec(ctx, cls=cls, mk=mk, specname=specname):
        ms = ctx.seq("matches")
        mk_self, spec_args = mk(ctx)
        ctx.equiv(
            f"{cls.__name__}.resolve",
            lambda it: it.call_function(method(cls, "resolve"), [mk_self(it), matches_iter(ms)], {}),
            lambda it: it.call_function(spec_fn(spec, specname), spec_args + [matches_iter(ms)], {}),
        )

    @contract(f"{clsname}.resolve_async==resolve", ("C08",), [M + f"{clsname}.resolve", M + f"{clsname}.resolve_async"], replay=("selector_replay", [clsname, "twin"]))
    def _twin(ctx, cls=cls, mk=mk):
        ms = ctx.seq("matches")
        mk_self, _ = mk(ctx)
        ctx.equiv(
            f"{cls.__name__}.resolve_async",
            lambda it: it.call_function(method(cls, "resolve_async"), [mk_self(it), matches_iter(ms)], {}),
            lambda it: it.call_function(method(cls, "resolve"), [mk_self(it), matches_iter(ms)], {}),
        )


for _n, (_mk, _sp, _props) in SELECTORS.items():
    _register(_n, _mk, _sp, _props)


# ------------------------------------------------------------------ recursion: modular contract of _expand
from pyvc.harness import call_contract  # noqa: E402
from pyvc.interp import GenVal  # noqa: E402

descendants_of = z3.Function("descendants_of", Py, S.SeqPy)


def descendants_term(it, m):
    """descendants_of(m), with the unfolding of its definition (spec.descendants) on a scalar."""
    obj = Py.mobj(m)
    it.assume(z3.Implies(z3.Not(z3.Or(Py.is_list(obj), Py.is_dict(obj))), descendants_of(m) == S.EmptySeq))
    return descendants_of(m)


@call_contract("jsonpath.selectors:RecursiveDescentSelector._expand")
def _expand_contract(it, fv, args, kwargs):
    """At call sites `_expand(match)` is the abstract sequence `descendants_of(match)`;
    the body is verified against `specs.rfc9535.descendants` under the induction hypothesis
    for the (structurally smaller) children."""
    it.assumed.append("contract:RecursiveDescentSelector._expand == spec.descendants (proved separately)")
    return GenVal([("yieldfrom", descendants_term(it, it.to_term(args[1])))])


@call_contract("specs.rfc9535:descendants")
def _descendants_contract(it, fv, args, kwargs):
    return GenVal([("yieldfrom", descendants_term(it, it.to_term(args[0])))])


@contract("RecursiveDescentSelector._expand==spec", ("C01", "C03"), [M + "RecursiveDescentSelector._expand"], replay=None)
def _expand_spec(ctx):
    from contracts.common import match_facts

    m = ctx.val("match")
    ctx.require(match_facts(m))
    mk_self, _ = mk_descent(ctx)
    ctx.equiv(
        "RecursiveDescentSelector._expand",
        lambda it: it.run_function(method(sel.RecursiveDescentSelector, "_expand"), [mk_self(it), m], {}),
        lambda it: it.run_function(spec_fn(spec, "descendants"), [m], {}),
    )


# ------------------------------------------------------------------ lemma: nothing is selected from a scalar

def _register_scalar(clsname, mk):
    cls = getattr(sel, clsname)

    @contract(f"{clsname}.resolve(scalar)==[]", ("C01", "C02"), [M + f"{clsname}.resolve"], replay=("selector_replay", [clsname, "sync"]))
    def _scalar(ctx, cls=cls, mk=mk):
        from contracts.common import match_facts
        from pyvc.interp import IterSpec

        m = ctx.val("match")
        ctx.require(match_facts(m), z3.Not(z3.Or(Py.is_list(Py.mobj(m)), Py.is_dict(Py.mobj(m)))))
        ctx.inputs["matches"] = S.mk_list([m])
        mk_self, _ = mk(ctx)

        def post(o):
            from pyvc.verify import Comparison

            chunks = Comparison("x").chunks(o.trace)
            out = [("no-exception", [], z3.BoolVal(o.kind == "return"), "resolve on a scalar must not raise")]
            for n, c in enumerate(chunks):
                if c[0] == "seq":
                    if clsname == "RecursiveDescentSelector":
                        out.append((f"t{n}", [], c[1] == z3.Unit(m), "descendant segment visits the node itself only"))
                    else:
                        out.append((f"t{n}", [], c[1] == S.EmptySeq, "must yield nothing"))
                else:
                    out.append((f"t{n}", [], z3.BoolVal(False), "loop over a scalar"))
            return out

        ctx.check_outcomes(f"{cls.__name__}.resolve(scalar)", lambda it: it.call_function(method(cls, "resolve"), [mk_self(it), [m]], {}), post)


for _n, (_mk, _sp, _props) in SELECTORS.items():
    if _n != "ListSelector":
        _register_scalar(_n, _mk)

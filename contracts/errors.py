"""C06: exceptional postconditions `raises subset-of Family` on the functions under contract.

Every path of the real function is enumerated on *arbitrary* inputs (no well-typedness precondition)
and each raise outcome's class must belong to the documented family; builtin operations contribute
their library raise-conditions (pyvc/lib.py), callees their contracts."""
from __future__ import annotations

import z3

import contracts.filternodes as FN
import contracts.selectors as SEL
from contracts.common import env_obj, matches_iter, method, mod
from contracts.pointer import P, pointer_obj, ptr
from pyvc import lib
from pyvc import sorts as S
from pyvc.harness import contract
from pyvc.interp import ClassVal, ExcVal, PyRaise
from pyvc.sorts import Py

exc = mod("jsonpath.exceptions")
envm = mod("jsonpath.env")
flt = mod("jsonpath.filter")
sel = mod("jsonpath.selectors")
pm = mod("jsonpath.patch")


def raises_within(*family):
    def post(o):
        if o.kind != "raise":
            return [("returns", [], z3.BoolVal(True), "normal return")]
        ok = issubclass(o.value.cls, family)
        return [(f"raises-{o.value.cls.__name__}", [], z3.BoolVal(ok), f"raises {o.value.cls.__name__}; allowed: {[f.__name__ for f in family]}")]

    return post


NOTHING = raises_within()


def _inline_env(it):
    """Arbitrary operands: the real is_truthy / _eq / _lt bodies are executed, not their contracts."""
    it.inline = {"jsonpath.env:JSONPathEnvironment.is_truthy", "jsonpath.env:JSONPathEnvironment.compare"}
    return None


def anyval(ctx, name):
    """Any value that can reach the evaluator: JSON value, Nothing, nodelist, pattern."""
    v = ctx.val(name)
    ctx.require(z3.Or(S.json_value(v), Py.is_undef(v), Py.is_nodelist(v), Py.is_pattern(v)))
    return v


# ---- evaluation

@contract("env.compare:raises", ("C06",), [FN.E + "compare" if hasattr(FN, "E") else "jsonpath.env:JSONPathEnvironment.compare"])
def _compare_raises(ctx):
    l, r = anyval(ctx, "left"), anyval(ctx, "right")
    for op in ("==", "!=", "<", ">", "<=", ">=", "&&", "||", "in", "contains", "=~", "<>", "nosuch"):
        ctx.check_outcomes(
            f"compare[{op}]:raises",
            lambda it, op=op: _inline_env(it) or it.run_function(method(envm.JSONPathEnvironment, "compare"), [env_obj(it), l, S.mk_str(op), r], {}),
            raises_within(exc.JSONPathError),
        )


def _register_selector_raises(clsname, mk):
    cls = getattr(sel, clsname)

    @contract(f"{clsname}.resolve:raises", ("C06",), [f"jsonpath.selectors:{clsname}.resolve"])
    def _c(ctx, cls=cls, mk=mk):
        ms = ctx.seq("matches")
        mk_self, _ = mk(ctx)
        ctx.check_outcomes(f"{cls.__name__}.resolve:raises", lambda it: it.call_function(method(cls, "resolve"), [mk_self(it), matches_iter(ms)], {}), raises_within(exc.JSONPathError))


for _n, (_mk, _sp, _props) in SEL.SELECTORS.items():
    _register_selector_raises(_n, _mk)


def _register_function_raises(name):
    clsname = FN.STD[name][0]

    @contract(
        f"FunctionExtension.evaluate[{name}]:raises",
        ("C06",),
        ["jsonpath.filter:FunctionExtension.evaluate", f"jsonpath.function_extensions.{name}:{clsname}.__call__"],
        tier="thorough" if name in ("match", "search") else "quick",  # 2-3 minutes of string reasoning about the pattern argument
    )
    def _c(ctx, name=name):
        ctxv = FN.ctx_inputs(ctx)
        cls = getattr(FN.fx, FN.STD[name][0])
        arity = FN.STD[name][1]

        def run(it):
            func = it.alloc(cls, {}, origin="QUERY")
            env = env_obj(it, function_extensions=Py.dict(S.mk_seq([S.mk_str(name)]), S.mk_seq([it.obj_term(func)])))
            args = []
            for i in range(arity):
                a = FN.abstract_expr(it, f"arg{i}")
                v = lib.expr_evaluate(it.obj_term(a), FN.ctx_term(ctxv))
                it.assume(lib.value_kind_facts(v))  # anything an expression can evaluate to
                if cls.arg_types[i].name == "NODES":
                    it.assume(Py.is_nodelist(v))  # compile-time gate (C07): a NodesType parameter is a query
                args.append(a)
            self = it.alloc(flt.FunctionExtension, {"name": S.mk_str(name), "args": it.to_term([it.obj_term(a) for a in args]), "volatile": S.TRUE}, origin="QUERY")
            c = FN.filter_context(it, ctxv)
            c.fields["env"] = env
            return it.run_function(method(flt.FunctionExtension, "evaluate"), [self, c], {})

        ctx.check_outcomes(f"FunctionExtension.evaluate[{name}]:raises", run, raises_within(exc.JSONPathError))


for _name in FN.STD:
    _register_function_raises(_name)


# ---- pointers

@contract("JSONPointer._index:raises", ("C06",), [P + "_index"])
def _index_raises(ctx):
    s = ctx.str("s")
    ctx.check_outcomes("_index:raises", lambda it: it.run_function(method(ptr.JSONPointer, "_index"), [pointer_obj(it), Py.str(s)], {}), raises_within(exc.JSONPointerError))


@contract("JSONPointer._getitem:raises", ("C06",), [P + "_getitem"])
def _getitem_raises(ctx):
    obj = ctx.json("obj")
    key = ctx.val("key")
    ctx.require(z3.Or(Py.is_int(key), Py.is_str(key)), S.py_len(obj) <= ptr.JSONPointer.max_int_index)  # every token a pointer can hold, extensions included
    ctx.check_outcomes("_getitem:raises", lambda it: it.run_function(method(ptr.JSONPointer, "_getitem"), [pointer_obj(it), obj, key], {}), raises_within(exc.JSONPointerResolutionError))


# ---- patch: error translation in JSONPatch.apply

def _abs_apply(it, v, a, k):
    """Abstract Op.apply: returns a document or raises anything of the pointer / patch families
    (the contract every concrete operation is proved against in contracts/patch.py)."""
    which = z3.Int(f"op_outcome!{len(it.pc)}")
    classes = [exc.JSONPatchTestFailure, exc.JSONPatchError, exc.JSONPointerKeyError, exc.JSONPointerIndexError, exc.JSONPointerTypeError, exc.JSONPointerError, exc.JSONPointerResolutionError]
    it.assume(z3.And(which >= 0, which <= len(classes)))
    for n, cls in enumerate(classes):
        if it.branch(which == n + 1):
            raise PyRaise(ExcVal(cls, [S.mk_str("raised by the operation")]))
    return z3.Const("op_result", Py)


lib.ABSTRACT_METHODS.setdefault("apply", _abs_apply)


@contract("JSONPatch.apply:raises", ("C06", "C05"), ["jsonpath.patch:JSONPatch.apply"])
def _patch_apply_raises(ctx):
    data = ctx.json("data")
    ctx.require(z3.Not(Py.is_str(data)))

    def run(it):
        ops = []
        for n in range(2):
            ops.append(it.alloc(pm.Op, {"name": Py.str(z3.String(f"opname{n}"))}, origin="PATCH", abstract=True))
        patch = it.alloc(pm.JSONPatch, {"ops": it.to_term([it.obj_term(o) for o in ops])}, origin="PATCH")
        return it.run_function(method(pm.JSONPatch, "apply"), [patch, data], {})

    ctx.check_outcomes("JSONPatch.apply:raises", run, raises_within(exc.JSONPatchError))


# ---- rendering errors as text

@contract("exceptions.__str__:raises", ("C06",), ["jsonpath.exceptions:JSONPathError.__str__", "jsonpath.exceptions:RelativeJSONPointerSyntaxError.__str__", "jsonpath.exceptions:JSONPointerKeyError.__str__"])
def _str_raises(ctx):
    msg = ctx.str("msg")
    rel = ctx.str("rel")

    def run_rel(it):
        e = ExcVal(exc.RelativeJSONPointerSyntaxError, [Py.str(msg)], {"rel": Py.str(rel)})
        return Py.str(lib.py_str(it, e))

    ctx.check_outcomes("RelativeJSONPointerSyntaxError.__str__:raises", run_rel, NOTHING)
    for cls in (exc.JSONPointerIndexError, exc.JSONPointerKeyError, exc.JSONPointerTypeError):
        ctx.check_outcomes(f"{cls.__name__}.__str__:raises", lambda it, cls=cls: Py.str(lib.py_str(it, ExcVal(cls, [Py.str(msg)]))), NOTHING)

    def run_path(it):
        e = ExcVal(exc.JSONPathSyntaxError, [Py.str(msg)], {"token": S.NONE})
        return Py.str(lib.py_str(it, e))

    ctx.check_outcomes("JSONPathError.__str__[no token]:raises", run_path, NOTHING)

"""Replay of solver counter-models on the real functions (and the executable spec)."""
from __future__ import annotations

import asyncio
import importlib

from pyvc.pyvalues import Undefined


def real(v):
    """Model value -> value for the real library (UNDEFINED sentinel, match records...)."""
    if isinstance(v, Undefined) or (isinstance(v, dict) and v.get("<undefined>")):
        return importlib.import_module("jsonpath.filter").UNDEFINED
    if isinstance(v, dict) and v.get("<match>"):
        return make_match(v)
    if isinstance(v, list):
        return [real(x) for x in v]
    if isinstance(v, tuple):
        if v and v[0] in ("<obj>", "<nodelist>", "<pattern>", "<?>"):
            return v
        return tuple(real(x) for x in v)
    if isinstance(v, dict):
        return {k: real(x) for k, x in v.items()}
    return v


def make_match(d, parent=None):
    jm = importlib.import_module("jsonpath.match")
    return jm.JSONPathMatch(
        filter_context={},
        obj=real(d["obj"]),
        parent=parent,
        parts=tuple(real(d["parts"])) if isinstance(d["parts"], (tuple, list)) else (),
        path=d["path"],
        root=real(d["root"]),
    )


def view(matches):
    return [(repr(m.obj), m.parts, m.path) for m in matches]


async def _alist(ait):
    return [m async for m in ait]


async def _aiter(xs):
    for x in xs:
        yield x


def build_selector(clsname, inputs):
    sel = importlib.import_module("jsonpath.selectors")
    envm = importlib.import_module("jsonpath.env")
    env = envm.JSONPathEnvironment()
    cls = getattr(sel, clsname)
    if clsname == "PropertySelector":
        return cls(env=env, token=None, name=inputs["name"], shorthand=False), [inputs["name"]]
    if clsname == "IndexSelector":
        s = cls.__new__(cls)
        s.env, s.token, s.index, s._as_key = env, None, inputs["index"], str(inputs["index"])
        return s, [inputs["index"]]
    if clsname == "WildSelector":
        return cls(env=env, token=None, shorthand=False), []
    if clsname == "SliceSelector":
        s = cls.__new__(cls)
        s.env, s.token, s.slice = env, None, slice(inputs["start"], inputs["stop"], inputs["step"])
        return s, [inputs["start"], inputs["stop"], inputs["step"]]
    if clsname == "RecursiveDescentSelector":
        return cls(env=env, token=None), []
    if clsname == "KeysSelector":
        env.keys_selector_token = inputs["keys_selector_token"]
        return cls(env=env, token=None, shorthand=False), [inputs["keys_selector_token"]]
    raise NotImplementedError(clsname)


SPEC_OF = {
    "PropertySelector": "name_segment",
    "IndexSelector": "index_segment",
    "WildSelector": "wildcard_segment",
    "SliceSelector": "slice_segment",
    "RecursiveDescentSelector": "descendant_segment",
    "KeysSelector": "keys_segment",
}


def selector_replay(clsname, mode):
    def replay(inputs):
        inputs = dict(inputs)
        import specs.rfc9535 as spec

        if clsname == "ListSelector":
            return None
        ms = [real(m) for m in inputs["matches"] if isinstance(m, dict) and m.get("<match>")]
        if not ms:
            return None
        s, args = build_selector(clsname, inputs)
        try:
            got = view(s.resolve(list(ms)))
        except Exception as e:  # noqa: BLE001
            got = f"raises {type(e).__name__}: {e}"
        if mode == "twin":
            try:
                other = view(asyncio.run(_alist(s.resolve_async(_aiter(list(ms))))))
            except Exception as e:  # noqa: BLE001
                other = f"raises {type(e).__name__}: {e}"
            what = "resolve_async"
        else:
            other = view(getattr(spec, SPEC_OF[clsname])(*args, list(ms)))
            what = "RFC spec"
        if got != other:
            return f"{clsname}: resolve -> {got!r} but {what} -> {other!r} on matches {view(ms)!r} args {args!r}"
        return None

    return replay


def run(factory, args, inputs):
    """Entry point of stand-alone replay files: rebuild the replay function and run it."""
    return globals()[factory](*args)(inputs)


def _env():
    return importlib.import_module("jsonpath.env").JSONPathEnvironment()


def _operand(v):
    v = real(v)
    if isinstance(v, tuple) and v and v[0] == "<nodelist>":
        nl = importlib.import_module("jsonpath.match").NodeList()
        for m in v[1]:
            nl.append(real(m) if not isinstance(m, dict) else make_match(m))
        return nl
    if isinstance(v, list) and len(v) == 2 and v[0] == "<nodelist>":
        nl = importlib.import_module("jsonpath.match").NodeList()
        for m in v[1]:
            nl.append(make_match(m) if isinstance(m, dict) and m.get("<match>") else real(m))
        return nl
    return v


def _outcome(fn, *args):
    try:
        return ("returns", fn(*args))
    except Exception as e:  # noqa: BLE001
        return ("raises", type(e).__name__)


def env_replay(meth, specname):
    def replay(inputs):
        import specs.rfc9535_filter as fspec

        l, r = _operand(inputs["left"]), _operand(inputs["right"])
        got = _outcome(getattr(_env(), meth), l, r)
        want = _outcome(getattr(fspec, specname), l, r)
        if got != want:
            return f"env.{meth}({l!r}, {r!r}) {got[0]} {got[1]!r} but RFC spec {specname} {want[0]} {want[1]!r}"
        return None

    return replay


def env_replay1(meth, specname):
    def replay(inputs):
        import specs.rfc9535_filter as fspec

        x = _operand(inputs["obj"])
        got = _outcome(getattr(_env(), meth), x)
        want = _outcome(getattr(fspec, specname), x)
        if got != want:
            return f"env.{meth}({x!r}) {got[0]} {got[1]!r} but RFC spec {specname} {want[0]} {want[1]!r}"
        return None

    return replay


def compare_replay(op, specname):
    def replay(inputs):
        import specs.rfc9535_filter as fspec

        l, r = _operand(inputs["left"]), _operand(inputs["right"])
        if op == "=~":
            return None  # re is opaque in the model: no concrete pattern to replay
        got = _outcome(_env().compare, l, op, r)
        want = _outcome(getattr(fspec, specname), l, op, r)
        if got != want:
            return f"env.compare({l!r}, {op!r}, {r!r}) {got[0]} {got[1]!r} but spec {specname} {want[0]} {want[1]!r}"
        return None

    return replay


def index_replay():
    def replay(inputs):
        import specs.rfc6901 as pspec

        ptr = importlib.import_module("jsonpath.pointer")
        p = ptr.JSONPointer("")
        s = inputs["s"]
        got = _outcome(p._index, s)
        want = _outcome(pspec.index_token, s, p.min_int_index, p.max_int_index)
        if got != want or type(got[1]) is not type(want[1]):
            return f"JSONPointer._index({s!r}) {got[0]} {got[1]!r} but spec {want[0]} {want[1]!r}"
        return None

    return replay


def getitem_replay():
    def replay(inputs):
        import specs.rfc6901 as pspec

        ptr = importlib.import_module("jsonpath.pointer")
        p = ptr.JSONPointer("")
        obj, key = real(inputs["obj"]), real(inputs["key"])
        got = _outcome(p._getitem, obj, key)
        want = _outcome(pspec.step, obj, key)
        if got != want:
            return f"JSONPointer._getitem({obj!r}, {key!r}) {got[0]} {got[1]!r} but RFC 6901 step {want[0]} {want[1]!r}"
        return None

    return replay


def _op_state(op):
    import copy

    names = set(getattr(op, "__dict__", {}))
    for c in type(op).__mro__:
        names.update(s for s in getattr(c, "__slots__", ()) if hasattr(op, s))
    st = {k: getattr(op, k) for k in sorted(names)}
    return {k: (str(v), tuple(v.parts)) if hasattr(v, "parts") else copy.deepcopy(v) for k, v in st.items()}


def patch_op_replay(clsname):
    def replay(inputs):
        import copy

        import specs.rfc6902 as jspec

        pm = importlib.import_module("jsonpath.patch")
        ptr = importlib.import_module("jsonpath.pointer")
        parts = tuple(real(inputs["parts"]))
        data = real(inputs["data"])
        value = real(inputs.get("value"))
        if not isinstance(data, (list, dict)):
            return None
        specname = {"OpAdd": "op_add", "OpRemove": "op_remove", "OpReplace": "op_replace", "OpTest": "op_test", "OpAddNe": "op_addne", "OpAddAp": "op_addap"}[clsname]

        def run(fn, *a):
            d = copy.deepcopy(data)
            p = ptr.JSONPointer.from_parts([]) if not parts else ptr.JSONPointer("", parts=parts, unicode_escape=False)
            try:
                r = fn(p, *a, d)
                return ("returns", r)
            except Exception as e:  # noqa: BLE001
                fam = "JSONPatchError" if isinstance(e, pm.JSONPatchError) else ("JSONPointerError" if isinstance(e, ptr.JSONPointerError) else type(e).__name__)
                return ("raises", fam)

        cls = getattr(pm, clsname)
        args = [] if clsname == "OpRemove" else [value]
        frame = []

        def real_apply(p, *a):
            op = cls(p, *a[:-1])
            before = _op_state(op)
            try:
                return op.apply(a[-1])
            finally:
                if _op_state(op) != before:
                    frame.append(f"{clsname}.apply changed the operation itself: {before!r} -> {_op_state(op)!r}")

        got = run(real_apply, *args)
        if frame:
            return frame[0] + f" (path parts={parts!r}, document {data!r})"
        want = run(getattr(jspec, specname), *args)
        if got != want:
            return f"{clsname}(path parts={parts!r}{', value=%r' % (value,) if args else ''}).apply({data!r}) {got[0]} {got[1]!r} but RFC 6902 {want[0]} {want[1]!r}"
        return None

    return replay


def patch_move_copy_replay(clsname):
    def replay(inputs):
        import copy

        import specs.rfc6902 as jspec

        pm = importlib.import_module("jsonpath.patch")
        ptr = importlib.import_module("jsonpath.pointer")
        data = real(inputs["data"])
        if not isinstance(data, (list, dict)):
            return None
        src, dst = tuple(real(inputs["src_parts"])), tuple(real(inputs["dst_parts"]))

        def run(fn):
            d = copy.deepcopy(data)
            try:
                return ("returns", fn(ptr.JSONPointer("", parts=src, unicode_escape=False), ptr.JSONPointer("", parts=dst, unicode_escape=False), d))
            except Exception as e:  # noqa: BLE001
                fam = "JSONPatchError" if isinstance(e, pm.JSONPatchError) else ("JSONPointerError" if isinstance(e, ptr.JSONPointerError) else type(e).__name__)
                return ("raises", fam)

        cls = getattr(pm, clsname)
        got = run(lambda s, t, d: cls(s, t).apply(d))
        want = run(jspec.op_move if clsname == "OpMove" else jspec.op_copy)
        if got != want:
            return f"{clsname}(from parts={src!r}, path parts={dst!r}).apply({data!r}) {got[0]} {got[1]!r} but RFC 6902 {want[0]} {want[1]!r}"
        return None

    return replay


def relative_replay():
    def replay(inputs):
        import specs.rfc6901 as pspec

        ptr = importlib.import_module("jsonpath.pointer")
        a, b = tuple(real(inputs["self_parts"])), tuple(real(inputs["other_parts"]))
        pa = ptr.JSONPointer("", parts=a, unicode_escape=False) if a else ptr.JSONPointer("")
        pb = ptr.JSONPointer("", parts=b, unicode_escape=False) if b else ptr.JSONPointer("")
        try:
            got = pa.is_relative_to(pb)
        except Exception as e:  # noqa: BLE001
            got = f"raises {type(e).__name__}"
        want = pspec.is_relative_to(a, b)
        if got != want:
            return f"JSONPointer(parts={a!r}).is_relative_to(JSONPointer(parts={b!r})) -> {got!r}, spec says {want!r}"
        return None

    return replay


def relative_candidates():
    import itertools

    toks = ["a", "ab", "b", "bc", 1, 10, "1", ""]
    tuples = [()] + [(t,) for t in toks] + [(s, t) for s in toks for t in toks] + [("a", "b", "c"), ("a", "bc", "d"), ("xs", 1), ("xs", 10, "k")]
    for a, b in itertools.product(tuples, repeat=2):
        yield {"self_parts": list(a), "other_parts": list(b)}


# ---- C15: construction of a patch (document form vs builder form vs printed form)

_BUILD_KINDS = {
    "add": ("add", ("path", "value"), ("path", "value")),
    "addne": ("addne", ("path", "value"), ("path", "value")),
    "addap": ("addap", ("path", "value"), ("path", "value")),
    "remove": ("remove", ("path",), ("path",)),
    "replace": ("replace", ("path", "value"), ("path", "value")),
    "move": ("move", ("from", "path"), ("from_", "path")),
    "copy": ("copy", ("from", "path"), ("from_", "path")),
    "test": ("test", ("path", "value"), ("path", "value")),
}


def _patch_outcome(fn):
    pm = importlib.import_module("jsonpath.patch")
    try:
        return ("prints", fn().asdicts())
    except Exception as e:  # noqa: BLE001
        return ("raises", "JSONPatchError" if isinstance(e, pm.JSONPatchError) else type(e).__name__)


def patch_build_replay(kind):
    meth, members, kwnames = _BUILD_KINDS[kind]

    def replay(inputs):
        pm = importlib.import_module("jsonpath.patch")
        ue, ud = bool(inputs.get("unicode_escape", True)), bool(inputs.get("uri_decode", False))
        vals = {m: real(inputs[m]) for m in members}
        d = {"op": kind, **vals}
        doc = _patch_outcome(lambda: pm.JSONPatch([d], unicode_escape=ue, uri_decode=ud))
        bld = _patch_outcome(lambda: getattr(pm.JSONPatch(unicode_escape=ue, uri_decode=ud), meth)(**{k: vals[m] for k, m in zip(kwnames, members)}))
        if doc != bld:
            return f"JSONPatch([{d!r}], unicode_escape={ue}, uri_decode={ud}) {doc[0]} {doc[1]!r} but JSONPatch(...).{meth}(...) {bld[0]} {bld[1]!r}"
        if doc[0] == "prints":
            got = doc[1]
            if len(got) != 1 or got[0].get("op") != kind or set(got[0]) != {"op", *members} or ("value" in members and got[0]["value"] != vals["value"]):
                return f"JSONPatch([{d!r}]).asdicts() == {got!r}: not the operation it was given"
            again = _patch_outcome(lambda: pm.JSONPatch(got, unicode_escape=False, uri_decode=False))
            if again != doc:
                return f"JSONPatch([{d!r}]).asdicts() == {got!r}, which itself builds a patch that {again[0]} {again[1]!r}"
        elif doc[1] != "JSONPatchError":
            return f"JSONPatch([{d!r}]) raises {doc[1]}, not JSONPatchError"
        return None

    return replay


def patch_build_candidates():
    import itertools

    texts = ["", "/a", "/a/0", "/a~1b", "/a%2Fb", "/%7E", "/\\u0041", "/\\u00e9", "a", "/a/-", "#/a", "/a b", "/~0"]
    values = [1, "s", [1], {"k": [1]}, None]
    for ue, ud in itertools.product((True, False), repeat=2):
        for t, t2 in itertools.product(texts, texts[:6]):
            for v in values[:2]:
                yield {"unicode_escape": ue, "uri_decode": ud, "path": t, "from": t2, "value": v}


def patch_build_missing_replay(kind, missing):
    meth, members, kwnames = _BUILD_KINDS[kind]

    def replay(inputs):
        pm = importlib.import_module("jsonpath.patch")
        ue, ud = bool(inputs.get("unicode_escape", True)), bool(inputs.get("uri_decode", False))
        d = {"op": kind, **{m: real(inputs[m]) for m in members if m != missing}}
        out = _patch_outcome(lambda: pm.JSONPatch([d], unicode_escape=ue, uri_decode=ud))
        if out != ("raises", "JSONPatchError"):
            return f"JSONPatch([{d!r}]) (no {missing!r} member) {out[0]} {out[1]!r}; expected JSONPatchError"
        return None

    return replay


def patch_build_unknown_replay():
    def replay(inputs):
        pm = importlib.import_module("jsonpath.patch")
        d = {"op": inputs["op"], "path": inputs["path"], "value": real(inputs["value"])}
        if d["op"] in _BUILD_KINDS:
            return None
        out = _patch_outcome(lambda: pm.JSONPatch([d]))
        if out != ("raises", "JSONPatchError"):
            return f"JSONPatch([{d!r}]) {out[0]} {out[1]!r}; expected JSONPatchError for an unknown operation name"
        return None

    return replay


# ---- C11: compound queries through every entry point

def _compound_expected(cp, data, nodes):
    """The specification (specs/compound.py) over the real operands of a compiled compound query."""
    import specs.compound as cspec

    fn = cspec.compound_nodes if nodes else cspec.compound_values
    return fn(cp.path, cp.paths, data, None, cp.env.union_token)


def compound_replay(mode):
    def replay(inputs):
        import copy

        jp = importlib.import_module("jsonpath")
        pathm = importlib.import_module("jsonpath.path")
        q, data = inputs.get("query"), inputs.get("document")
        if q is None:
            return None  # the counter-model lives in the abstraction: the witness search supplies real queries
        cp = jp.compile(q)
        if not isinstance(cp, pathm.CompoundJSONPath):
            return None
        d = copy.deepcopy(data)
        want_nodes = [(m.obj, m.path) for m in _compound_expected(cp, d, True)]
        want_values = _compound_expected(cp, d, False)
        try:
            if mode == "findall":
                got, want = cp.findall(d), want_values
            elif mode == "findall_async":
                got, want = asyncio.run(cp.findall_async(d)), want_values
                if got == want and cp.findall(copy.deepcopy(data)) != got:
                    return f"compile({q!r}).findall({data!r}) -> {cp.findall(copy.deepcopy(data))!r} but findall_async -> {got!r}"
            elif mode == "finditer":
                got, want = [(m.obj, m.path) for m in cp.finditer(d)], want_nodes
            elif mode == "finditer_async":

                async def go():
                    return [(m.obj, m.path) async for m in await cp.finditer_async(d)]

                got, want = asyncio.run(go()), want_nodes
                sync = [(m.obj, m.path) for m in cp.finditer(copy.deepcopy(data))]
                if got == want and sync != got:
                    return f"compile({q!r}).finditer({data!r}) -> {sync!r} but finditer_async -> {got!r}"
            else:
                m = cp.match(d)
                got, want = (None if m is None else (m.obj, m.path)), (want_nodes[0] if want_nodes else None)
        except Exception as e:  # noqa: BLE001
            got, want = f"raises {type(e).__name__}: {e}", (want_nodes if "iter" in mode or mode == "match" else want_values)
        if got != want:
            return f"compile({q!r}).{mode}({data!r}) -> {got!r}; left-to-right union/intersection of the operands' results is {want!r}"
        return None

    return replay


def compound_candidates():
    docs = [
        {"a": [1, 2, 3], "b": [2, 3, 4], "c": [3, 5]},
        {"a": [1, 1, 2], "b": [1], "c": []},
        {"a": [{"x": 1}, {"x": 2}], "b": [{"x": 2}], "c": [{"x": 1}, {"x": 2}]},
        [[1, 2], [2, 3], [3]],
    ]
    queries = [
        "$.a[*] | $.b[*]",
        "$.a[*] & $.b[*]",
        "$.a[*] & $.b[*] & $.c[*]",
        "$.a[*] | $.b[*] & $.c[*]",
        "$.a[*] & $.b[*] | $.c[*]",
        "$.a[*] | $.b[*] | $.c[*]",
        "$.c[*] & $.a[*] & $.b[*]",
        "$[0][*] | $[1][*]",
        "$[0][*] & $[1][*]",
        "$[0][*] & $[1][*] & $[2][*]",
        "$[0][*] | $[1][*] & $[2][*]",
    ]
    for q in queries:
        for d in docs:
            yield {"query": q, "document": d}


# ---- C11: JSON text / readable file / parsed value

def document_forms_replay(meth):
    def replay(inputs):
        import io
        import json

        jp = importlib.import_module("jsonpath")
        q, data = inputs.get("query"), inputs.get("document")
        if q is None:
            return None  # abstract counter-model: the witness search supplies real queries and documents
        p = jp.compile(q)
        text = json.dumps(data)

        def run(doc):
            try:
                if meth == "findall":
                    return p.findall(doc)
                if meth == "findall_async":
                    return asyncio.run(p.findall_async(doc))
                if meth == "finditer":
                    return [(m.obj, m.path) for m in p.finditer(doc)]
                if meth == "finditer_async":

                    async def go():
                        return [(m.obj, m.path) async for m in await p.finditer_async(doc)]

                    return asyncio.run(go())
                m = p.match(doc)
                return None if m is None else (m.obj, m.path)
            except Exception as e:  # noqa: BLE001
                return f"raises {type(e).__name__}: {e}"

        want = run(json.loads(text))
        for form, doc in (("JSON text", text), ("a readable file", io.StringIO(text))):
            got = run(doc)
            if got != want:
                return f"compile({q!r}).{meth}(<{form} {text!r}>) -> {got!r}, on the parsed value -> {want!r}"
        return None

    return replay


def document_forms_candidates():
    docs = [{"a": [1, 2, {"b": "x"}], "c": "[1]"}, [1, [2, 3], {"a": None}], {}, [], {"a": {"b": {"c": 1}}}]
    queries = ["$", "$.a", "$..*", "$[*]", "$.a[0]", "$[?@.b]", "$.c", "^[0]"]
    for q in queries:
        for d in docs:
            yield {"query": q, "document": d}


def compound_forms_replay(meth):
    inner = document_forms_replay(meth)

    def replay(inputs):
        return inner(inputs) if inputs.get("query") else None

    return replay


# ---- C18: the command-line handlers (the counter-model is an option combination in an abstraction of
# ---- the library; the witness is searched by the end-to-end matrix of monitors/c18.py on the real CLI)

def cli_replay(sub):
    def replay(inputs):
        from monitors import c18

        res = c18.run("quick", 0)
        for f in res.get("failures", []):
            what = f.get("what", "")
            if what.startswith(f"json {sub}") or f" {sub} " in what[:80] or f"python -m jsonpath {sub}" in what:
                return what[:900]
        return None

    return replay


# ---- C19: _patch_obj against the recursive statement of placement

def patch_obj_replay(shape):
    shape = tuple(shape)

    def replay(inputs):
        import copy

        import specs.projection as pspec

        fl = importlib.import_module("jsonpath.fluent_api")

        def node(k):
            n = fl._Node()
            ks, vs = real(inputs.get(f"node{k}_keys", [])), real(inputs.get(f"node{k}_vals", []))
            for a, b in zip(ks, vs):
                if isinstance(a, (int, str)) and not isinstance(a, bool):
                    n[a] = b
            return n

        toks = [real(inputs[f"token{k}"]) for k in range(len(shape) + 1)]
        if not all(isinstance(t, (int, str)) and not isinstance(t, bool) for t in toks):
            return None
        root = cur = node(0)
        for k, what in enumerate(shape):
            if what == "absent":
                cur.pop(toks[k], None)
                break
            if what == "node":
                child = node(k + 1)
                cur[toks[k]] = child
                cur = child
            else:
                cur[toks[k]] = real(inputs.get(f"selected{k}"))
                break
        value = real(inputs.get("value"))

        def view(x):
            if isinstance(x, fl._Node):
                return ("node", {k: view(v) for k, v in x.items()})
            return x

        a, b = copy.deepcopy(root), copy.deepcopy(root)
        pspec_new, pspec_is = pspec.new_node, pspec.is_node
        pspec.new_node, pspec.is_node = fl._Node, (lambda x: isinstance(x, fl._Node))
        try:
            try:
                fl._patch_obj(tuple(toks), a, copy.deepcopy(value))
                got = ("returns", view(a))
            except Exception as e:  # noqa: BLE001
                got = ("raises", type(e).__name__)
            try:
                pspec.place_at(b, tuple(toks), copy.deepcopy(value))
                want = ("returns", view(b))
            except Exception as e:  # noqa: BLE001
                want = ("raises", type(e).__name__)
        finally:
            pspec.new_node, pspec.is_node = pspec_new, pspec_is
        if got != want:
            return f"_patch_obj({tuple(toks)!r}, {view(root)!r}, {value!r}) {got[0]} {got[1]!r}; placing the value at that location gives {want[1]!r}"
        return None

    return replay


# ---- C12: Query operations against list slicing

def query_op_replay(name, specname, arg_kind):
    def replay(inputs):
        import specs.fluent as qspec

        fl = importlib.import_module("jsonpath.fluent_api")
        envm = importlib.import_module("jsonpath.env")
        raw = inputs.get("v", [])
        ms = [make_match(m) if isinstance(m, dict) and m.get("<match>") else None for m in raw]
        if any(m is None for m in ms):
            return None
        args = []
        if arg_kind == "int":
            args = [inputs.get("n", 0)]
        elif isinstance(arg_kind, int):
            args = [arg_kind]

        def show(x):
            if isinstance(x, fl.Query):
                return [show(m) for m in x._it]
            if hasattr(x, "obj") and hasattr(x, "parts"):
                return (repr(x.obj), x.parts)
            if isinstance(x, (list, tuple)):
                return [show(y) for y in x]
            if hasattr(x, "__iter__") and not isinstance(x, (str, dict)):
                return [show(y) for y in x]
            return x

        q = fl.Query(iter(ms), envm.JSONPathEnvironment())
        try:
            r = getattr(q, name)(*args)
            got = ("returns", show(r), show(q))
        except Exception as e:  # noqa: BLE001
            got = ("raises", type(e).__name__)
        try:
            back, rest = getattr(qspec, specname)(list(ms), *args)
            want = ("returns", show(back), show(rest))
        except Exception as e:  # noqa: BLE001
            want = ("raises", type(e).__name__)
        if got != want:
            return f"Query over {len(ms)} matches .{name}({', '.join(map(repr, args))}): handed back {got[1]!r}, remaining {got[2] if len(got) > 2 else None!r}; list slicing gives {want[1]!r}, remaining {want[2] if len(want) > 2 else None!r}"
        return None

    return replay


def query_candidates():
    for n_matches in range(0, 5):
        ms = [{"<match>": True, "obj": i * 10, "parts": [i], "path": f"$[{i}]", "root": list(range(5))} for i in range(n_matches)]
        for n in (0, 1, 2, 3, 7):
            yield {"v": ms, "n": n}


# ---- C16: RelativeJSONPointer.to against the draft

def relptr_replay(marker):
    def replay(inputs):
        import specs.relptr as rspec

        ptrm = importlib.import_module("jsonpath.pointer")
        exc = importlib.import_module("jsonpath.exceptions")
        base = tuple(real(inputs.get("base_parts", [])))
        suffix = tuple(real(inputs.get("suffix_parts", [])))
        origin, index = inputs.get("origin", 0), inputs.get("index", 0)
        if not all(isinstance(t, (int, str)) and not isinstance(t, bool) for t in base + suffix) or origin < 0:
            return None
        rel = ptrm.RelativeJSONPointer.__new__(ptrm.RelativeJSONPointer)
        rel.origin, rel.index = origin, index
        rel.pointer = "#" if marker else (ptrm.JSONPointer("", parts=suffix, unicode_escape=False) if suffix else ptrm.JSONPointer(""))
        bp = ptrm.JSONPointer("", parts=base, unicode_escape=False) if base else ptrm.JSONPointer("")
        try:
            got = ("returns", [str(p) for p in rel.to(bp, unicode_escape=False).parts])
        except (exc.RelativeJSONPointerError, exc.JSONPointerError) as e:
            got = ("raises", "RelativeJSONPointerError" if isinstance(e, exc.RelativeJSONPointerError) else type(e).__name__)
        except Exception as e:  # noqa: BLE001
            got = ("raises", type(e).__name__)
        try:
            want = ("returns", [str(p) for p in rspec.to_parts(origin, index, suffix, marker, base)])
        except Exception as e:  # noqa: BLE001
            want = ("raises", "RelativeJSONPointerError" if isinstance(e, exc.RelativeJSONPointerError) else type(e).__name__)
        if index != 0 and (len(base) <= origin or not (isinstance(base[len(base) - origin - 1], int) or str(base[len(base) - origin - 1]).isdigit())):
            return None  # outside the statement: an offset on something that is not an array index
        if got != want:
            return f"RelativeJSONPointer(steps={origin}, offset={index}, {'#' if marker else 'suffix=%r' % (suffix,)}).to(base tokens {base!r}) {got[0]} {got[1]!r}; the draft {want[0]} {want[1]!r}"
        return None

    return replay


def relptr_candidates():
    import itertools

    bases = [[], ["a"], [0], ["a", 2], ["a", "b", 1], [3, "k"]]
    for base, origin, index, suffix in itertools.product(bases, (0, 1, 2, 3), (0, 1, -1, -3, 12), ([], ["x"], [0, "y"])):
        yield {"base_parts": base, "origin": origin, "index": index, "suffix_parts": suffix}


# ---- C02: the standard function calls (the contract's arguments are abstract expressions: the witness is
# ---- searched over stub arguments that evaluate to a fixed value, Nothing or a node list)

def function_replay(name):
    def replay(inputs):
        import itertools

        import specs.rfc9535_filter as fspec

        flt = importlib.import_module("jsonpath.filter")
        jm = importlib.import_module("jsonpath.match")
        sel = importlib.import_module("jsonpath.selectors")
        env = _env()

        class Stub(flt.FilterExpression):
            def __init__(self, value):
                self.value = value
                super().__init__()

            def evaluate(self, context):
                return self.value

            async def evaluate_async(self, context):
                return self.value

            def children(self):
                return []

            def set_children(self, children):
                return None

            def __str__(self):
                return f"<{self.value!r}>"

        def nodes(*vals):
            nl = jm.NodeList()
            for i, v in enumerate(vals):
                nl.append(jm.JSONPathMatch(filter_context={}, obj=v, parent=None, parts=(i,), path=f"$[{i}]", root=list(vals)))
            return nl

        values = [flt.UNDEFINED, nodes(), nodes("abc"), nodes([1, 2]), nodes("ab", "c"), nodes({"a": 1}), "abc", "", [1, 2, 3], {"a": 1, "b": 2}, 5, None, True, "a.c", "ab", "[", nodes("a.c")]
        arity = {"length": 1, "count": 1, "value": 1, "match": 2, "search": 2}[name]
        ctx = sel.FilterContext(env=env, current=None, root=None, extra_context={}, current_key=None)
        for args in itertools.product(values, repeat=arity):
            if name in ("count", "value") and not isinstance(args[0], jm.NodeList):
                continue  # well-typedness: a NodesType parameter is given a query
            if name in ("length", "match", "search") and any(isinstance(a, jm.NodeList) and len(a) > 1 for a in args):
                continue  # a ValueType parameter is given a singular query
            expr = flt.FunctionExtension(name, [Stub(a) for a in args])
            try:
                got = ("returns", expr.evaluate(ctx))
            except Exception as e:  # noqa: BLE001
                got = ("raises", type(e).__name__)
            try:
                want = ("returns", fspec.function_evaluate(expr, ctx))
            except Exception as e:  # noqa: BLE001
                want = ("raises", type(e).__name__)
            same = got[0] == want[0] and (got[1] is want[1] or (type(got[1]) is type(want[1]) and got[1] == want[1]))
            if not same:
                shown = [("nodelist of %r" % ([m.obj for m in a],)) if isinstance(a, jm.NodeList) else repr(a) for a in args]
                return f"{name}({', '.join(shown)}) {got[0]} {got[1]!r}; RFC 9535 section 2.4 {want[0]} {want[1]!r}"
        return None

    return replay


# ---- pointer text codec (JSONPointer._encode / _parse / __truediv__ against specs.rfc6901)

def _codec_tokens():
    alpha = ["~", "/", "0", "1", "a", "~0", "~1", "~01", "~10", "a/b", "a~b", "", "01", "-1", "12", "~~", "//", " ", "é", "\\"]
    return alpha


def codec_candidates():
    import itertools

    toks = _codec_tokens()
    texts = set()
    for n in (0, 1, 2, 3):
        for combo in itertools.product(["~", "/", "0", "1", "a"], repeat=n):
            texts.add("".join(combo))
            texts.add("/" + "".join(combo))
    texts |= {"/" + "/".join(c) for c in itertools.product(toks, repeat=2)}
    texts |= {" /a", "a", "/~", "/~2", "/a/~01/b", "/12/012/-3", "/9007199254740993"}
    for t in sorted(texts):
        yield {"s": t, "other": t.lstrip("/"), "parts": [t], "self_parts": ["x"], "as_tuple": True}
    for a in toks + [0, 1, 12, -3]:
        for b in toks + [7]:
            yield {"parts": [a, b], "as_tuple": True, "s": "", "other": str(a), "self_parts": [b]}
            yield {"parts": [a, b], "as_tuple": False, "s": "", "other": str(a), "self_parts": [b]}
    yield {"parts": [], "as_tuple": True, "s": "", "other": "", "self_parts": []}
    yield {"parts": [], "as_tuple": False, "s": "", "other": "", "self_parts": []}


def encode_replay():
    def replay(inputs):
        import specs.rfc6901 as pspec

        ptr = importlib.import_module("jsonpath.pointer")
        parts = [real(x) for x in inputs["parts"]]
        parts = tuple(parts) if inputs.get("as_tuple", True) else list(parts)
        if not all(isinstance(p, (int, str)) and not isinstance(p, bool) for p in parts):
            return None
        got = _outcome(ptr.JSONPointer._encode, parts)
        want = _outcome(pspec.pointer_text, parts)
        if got != want:
            return f"JSONPointer._encode({parts!r}) {got[0]} {got[1]!r} but RFC 6901 section 3 spelling {want[0]} {want[1]!r}"
        return None

    return replay


def parse_replay():
    def replay(inputs):
        import specs.rfc6901 as pspec

        ptr = importlib.import_module("jsonpath.pointer")
        p = ptr.JSONPointer("")
        s = inputs["s"]
        got = _outcome(lambda: p._parse(s, unicode_escape=False, uri_decode=False))
        want = _outcome(pspec.parse_text, s, p.min_int_index, p.max_int_index)
        if got != want or (got[0] == "returns" and [type(x) for x in got[1]] != [type(x) for x in want[1]]):
            return f"JSONPointer._parse({s!r}, no decoding) {got[0]} {got[1]!r} but RFC 6901 tokens {want[0]} {want[1]!r}"
        return None

    return replay


def truediv_replay():
    def replay(inputs):
        import specs.rfc6901 as pspec

        ptr = importlib.import_module("jsonpath.pointer")
        parts = tuple(real(x) for x in inputs["self_parts"])
        other = inputs["other"]
        if "\\" in other or other.lstrip().startswith("/") or not all(isinstance(p, (int, str)) and not isinstance(p, bool) for p in parts):
            return None
        base = ptr.JSONPointer.from_parts(parts, unicode_escape=False) if parts else ptr.JSONPointer("")
        got = _outcome(lambda: (base / other).parts)
        want = _outcome(pspec.truediv_parts, base.parts, other, base.min_int_index, base.max_int_index)
        if got != want or (got[0] == "returns" and [type(x) for x in got[1]] != [type(x) for x in want[1]]):
            return f"(JSONPointer({str(base)!r}) / {other!r}).parts {got[0]} {got[1]!r} but the tokens of the text appended to the base's are {want[0]} {want[1]!r}"
        return None

    return replay


def from_parts_replay():
    def replay(inputs):
        import specs.rfc6901 as pspec

        ptr = importlib.import_module("jsonpath.pointer")
        parts = [real(x) for x in inputs["parts"]]
        if not all(isinstance(p, (int, str)) and not isinstance(p, bool) for p in parts):
            return None
        got = _outcome(lambda: (lambda r: (r.parts, str(r)))(ptr.JSONPointer.from_parts(parts, unicode_escape=False, uri_decode=False)))
        want = _outcome(lambda: (pspec.from_parts_tokens(parts), pspec.pointer_text(pspec.from_parts_tokens(parts))))
        if got != want:
            return f"JSONPointer.from_parts({parts!r}, no decoding) {got[0]} {got[1]!r} but the tokens' texts and their RFC 6901 spelling are {want[0]} {want[1]!r}"
        return None

    return replay

"""C07: the compile-time gate - integer ranges with symbolic limits, singular-query classification."""
from __future__ import annotations

import z3

import specs.typing9535 as tspec
from contracts.common import env_obj, method, mod, spec_fn
from pyvc import lib
from pyvc import sorts as S
from pyvc.harness import contract
from pyvc.interp import ClassVal, SliceVal
from pyvc.sorts import Py

sel = mod("jsonpath.selectors")
pathm = mod("jsonpath.path")
exc = mod("jsonpath.exceptions")


def limits(ctx):
    lo, hi = ctx.int("min_int_index"), ctx.int("max_int_index")
    ctx.require(lo <= hi)
    return lo, hi


@contract("IndexSelector.__init__:range", ("C07",), ["jsonpath.selectors:IndexSelector.__init__"])
def _index_init(ctx):
    """For every configured range and every index: construction raises JSONPathIndexError exactly
    when the index is outside [min_int_index, max_int_index]."""
    lo, hi = limits(ctx)
    i = ctx.int("index")

    def code(it):
        env = env_obj(it, min_int_index=Py.int(lo), max_int_index=Py.int(hi))
        it.call(ClassVal(sel.IndexSelector), [], {"env": env, "token": S.NONE, "index": Py.int(i)})
        return S.TRUE

    def spec(it):
        ok = it.run_function(spec_fn(tspec, "in_range"), [Py.int(i), Py.int(lo), Py.int(hi)], {})
        if it.branch(it.truth(ok)):
            return S.TRUE
        it.raise_(exc.JSONPathIndexError, "index out of range")

    ctx.equiv("IndexSelector.__init__", code, spec)


@contract("SliceSelector.__init__:range", ("C07",), ["jsonpath.selectors:SliceSelector.__init__", "jsonpath.selectors:SliceSelector._check_range"])
def _slice_init(ctx):
    lo, hi = limits(ctx)
    bounds = []
    for n in ("start", "stop", "step"):
        v = ctx.val(n)
        ctx.require(z3.Or(Py.is_none(v), Py.is_int(v)))
        bounds.append(v)

    def code(it):
        env = env_obj(it, min_int_index=Py.int(lo), max_int_index=Py.int(hi))
        it.call(ClassVal(sel.SliceSelector), [], {"env": env, "token": S.NONE, "start": bounds[0], "stop": bounds[1], "step": bounds[2]})
        return S.TRUE

    def spec(it):
        for b in bounds:
            ok = it.run_function(spec_fn(tspec, "check_bound"), [b, Py.int(lo), Py.int(hi)], {})
            if not it.branch(it.truth(ok)):
                it.raise_(exc.JSONPathIndexError, "index out of range")
        return S.TRUE

    ctx.equiv("SliceSelector.__init__", code, spec)


def _selector_of_kind(it, kind, n):
    env = env_obj(it)
    if kind == "name":
        return it.alloc(sel.PropertySelector, {"env": env}, origin="QUERY")
    if kind == "index":
        return it.alloc(sel.IndexSelector, {"env": env}, origin="QUERY")
    if kind == "wild":
        return it.alloc(sel.WildSelector, {"env": env}, origin="QUERY")
    if kind == "slice":
        return it.alloc(sel.SliceSelector, {"env": env}, origin="QUERY")
    if kind == "desc":
        return it.alloc(sel.RecursiveDescentSelector, {"env": env}, origin="QUERY")
    if kind == "filter":
        return it.alloc(sel.Filter, {"env": env}, origin="QUERY")
    if kind.startswith("list:"):
        items = [_selector_of_kind(it, k, 0) for k in kind[5:].split("+") if k]
        return it.alloc(sel.ListSelector, {"env": env, "items": it.to_term(tuple(it.obj_term(x) for x in items))}, origin="QUERY")
    raise ValueError(kind)


KINDS = ["name", "index", "wild", "slice", "desc", "filter", "list:name", "list:index", "list:wild", "list:slice", "list:filter", "list:name+name", "list:name+index", "list:index+wild", "list:"]


def _register_singular(shape):
    @contract(f"JSONPath.singular_query[{','.join(shape) or 'empty'}]", ("C07",), ["jsonpath.path:JSONPath.singular_query"])
    def _c(ctx, shape=shape):
        def mk(it):
            sels = [_selector_of_kind(it, k, n) for n, k in enumerate(shape)]
            return it.to_term(tuple(it.obj_term(s) for s in sels))

        ctx.equiv(
            "singular_query",
            lambda it: it.run_function(method(pathm.JSONPath, "singular_query"), [it.alloc(pathm.JSONPath, {"selectors": mk(it), "env": env_obj(it)}, origin="QUERY")], {}),
            lambda it: it.run_function(spec_fn(tspec, "singular_query"), [mk(it)], {}),
        )


_register_singular(())
for _k in KINDS:
    _register_singular((_k,))
for _a in ("name", "list:index", "wild", "list:name+name"):
    for _b in ("index", "list:name", "list:name+index", "slice"):
        _register_singular((_a, _b))

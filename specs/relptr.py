"""draft-hha-relative-json-pointer-00 / draft-bhutton-relative-json-pointer-00: grammar and
evaluation of Relative JSON Pointers against a base *pointer* (token list), as the library's `to()`.

   relative-json-pointer = non-negative-integer [index-manipulation] ( "#" / json-pointer )
   index-manipulation    = ("+" / "-") positive-integer        ; any number of digits
   non-negative-integer  = "0" / ( %x31-39 *DIGIT )             ; no leading zeros
"""
import re

from jsonpath.exceptions import RelativeJSONPointerError

REL = re.compile(r"(0|[1-9][0-9]*)(?:([+-])([1-9][0-9]*))?(#|(?:/.*)?)", re.DOTALL)


class RelError(RelativeJSONPointerError):
    pass


def parse(text):
    """-> (steps, offset, suffix) where suffix is '#' or a list of reference tokens."""
    m = REL.fullmatch(text)
    if m is None:
        raise RelError("syntax")
    steps = int(m.group(1))
    offset = int(m.group(3)) if m.group(2) else 0
    if m.group(2) == "-":
        offset = -offset
    rest = m.group(4)
    if rest == "#":
        return steps, offset, "#"
    tokens = [t.replace("~1", "/").replace("~0", "~") for t in rest.split("/")[1:]]
    return steps, offset, tokens


def is_index(tok):
    return re.fullmatch(r"0|[1-9][0-9]*", tok) is not None


def apply(base_tokens, steps, offset, suffix):
    """base_tokens: list of str.  Returns the token list of the result, or ('#', token) for the key marker."""
    if steps > len(base_tokens):
        raise RelError("more steps than the base has tokens")
    toks = list(base_tokens[: len(base_tokens) - steps])
    if offset:
        if not toks or not is_index(toks[-1]):
            # the draft makes evaluation fail when the referenced value is not an array item; on
            # pointers alone this cannot be known, and the property statement only fixes the case of
            # a final array index: left unconstrained
            return None
        n = int(toks[-1]) + offset
        if n < 0:
            raise RelError("index offset makes the index negative")
        toks[-1] = str(n)
    if suffix == "#":
        if not toks:
            raise RelError("'#' at the root")
        return ("#", toks)
    return toks + list(suffix)


# ---- the same evaluation on the library's token representation (ints for canonical indices),
# ---- in the Python subset of pyvc (contract of RelativeJSONPointer.to)

from jsonpath.exceptions import RelativeJSONPointerIndexError  # noqa: E402
from jsonpath.pointer import JSONPointer  # noqa: E402


def to_parts(origin, index, suffix_parts, marker, base_parts):
    """Tokens of the result of applying (origin, index offset, suffix | '#') to a base.

    Precondition (the statement's scope): when index != 0 the token the offset applies to is an
    array index (a non-negative int, or its canonical decimal string)."""
    if origin > len(base_parts):
        raise RelativeJSONPointerIndexError("more steps than the base has tokens")
    parts = list(base_parts[: len(base_parts) - origin])
    if index != 0:
        if len(parts) > 0:
            n = int(parts[len(parts) - 1]) + index
            if n < 0:
                raise RelativeJSONPointerIndexError("index offset makes the index negative")
            parts[len(parts) - 1] = n
    if marker:
        if len(parts) == 0:
            raise RelativeJSONPointerIndexError("'#' at the root")
        parts[len(parts) - 1] = "#" + str(parts[len(parts) - 1])
        return parts
    return parts + list(suffix_parts)

"""Spec functions, written from the RFC texts and the property statements (never from the code).

They are in the Python subset `pyvc` understands: the same definition is compiled to z3 when an
obligation is generated and executed by CPython in the monitors.
"""

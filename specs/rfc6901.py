"""RFC 6901 (JSON Pointer), section 3 (syntax), 4 (evaluation), plus the library's documented
extensions where the property statement places them outside the RFC clause."""
from functools import reduce

from jsonpath.exceptions import JSONPointerError
from jsonpath.exceptions import JSONPointerIndexError
from jsonpath.exceptions import JSONPointerKeyError
from jsonpath.exceptions import JSONPointerResolutionError
from jsonpath.exceptions import JSONPointerTypeError
from jsonpath.pointer import UNDEFINED

from specs.prims import canonical_int
from specs.prims import canonical_nat


def index_token(s, lo, hi):
    """How a reference token is held: as an int exactly when it is the canonical decimal spelling
    of an integer (so that str(result) == s always holds and no two tokens collapse), else as text.
    Integers beyond the index limits are refused (documented)."""
    if canonical_int(s):
        n = int(s)
        if n < lo or n > hi:
            raise JSONPointerIndexError("index out of range")
        return n
    return s


def step(obj, key):
    """RFC 6901 section 4, one reference token applied to one value.

    `key` is a token as held by the pointer: an int or a str.  Precondition (extensions carved out
    as in the statement): a str key does not start with '#' or '~'.
    Documented extension kept: negative array indices count from the end."""
    if isinstance(obj, dict):
        name = key if isinstance(key, str) else str(key)
        if name in obj:
            return obj[name]
        raise JSONPointerKeyError(key)
    if isinstance(obj, list):
        if isinstance(key, str):
            if not canonical_int(key):
                if key == "-":
                    raise JSONPointerIndexError("index out of range")  # the (nonexistent) element after the last
                raise JSONPointerTypeError("not an array index")
            idx = int(key)
        else:
            idx = key
        if -len(obj) <= idx < len(obj):
            return obj[idx]
        raise JSONPointerIndexError("index out of range")
    raise JSONPointerTypeError("cannot step into a string, number, boolean or null")


def walk(data, parts):
    """Section 4: the tokens are applied one after the other, starting from the whole document."""
    return reduce(step, parts, data)


def resolve(parts, data, default):
    try:
        return walk(data, parts)
    except JSONPointerResolutionError:
        if default is not UNDEFINED:
            return default
        raise


def exists(parts, data):
    try:
        walk(data, parts)
    except JSONPointerResolutionError:
        return False
    return True


def resolve_parent(parts, data):
    if not parts:
        return (None, data)
    parent = walk(data, parts[:-1])
    try:
        return (parent, step(parent, parts[-1]))
    except (JSONPointerIndexError, JSONPointerKeyError):
        # documented: the parent exists but the last token names nothing in it
        return (parent, UNDEFINED)


# ---- pointer algebra on reference tokens (C14): tokens(p) = [str(x) for x in p.parts]

def tokens(parts):
    return [str(p) for p in parts]


def is_relative_to(self_parts, other_parts):
    """`self` lies strictly below `other`: other's tokens are a proper prefix of self's tokens."""
    return len(other_parts) < len(self_parts) and self_parts[: len(other_parts)] == other_parts


def parent_parts(parts):
    """The pointer one token shorter; the root is its own parent."""
    if len(parts) == 0:
        return parts
    return parts[:-1]


def same_tokens(a_parts, b_parts):
    """Two pointers are equal exactly when their reference tokens (strings) are equal."""
    return tokens(a_parts) == tokens(b_parts)


# ---- pointer text (RFC 6901 section 3 syntax, section 4 decoding order): the functions the Lean
# lemmas of lemmas/PointerText.lean are stated about (enc / dec / text / parse there)

def encode_token(t):
    """Section 3: '~' is spelled '~0' and '/' is spelled '~1' ('~' first, or '~1' would be re-escaped)."""
    return t.replace("~", "~0").replace("/", "~1")


def decode_token(p):
    """Section 4: '~1' first, then '~0' ('~01' is '~1', never '/')."""
    return p.replace("~1", "/").replace("~0", "~")


def pointer_text(parts):
    """json-pointer = *( "/" reference-token ): every token, escaped, behind a slash."""
    if len(parts) == 0:
        return ""
    return "/" + "/".join([encode_token(str(p)) for p in parts])


def parse_text(s, lo, hi):
    """The tokens of a pointer text: what stands between the slashes, decoded; a non-empty text must
    start with a slash.  (Leading blanks are dropped: library behaviour outside the statement.)"""
    s = s.lstrip()
    if s != "" and not s.startswith("/"):
        raise JSONPointerError("pointer must start with a slash or be the empty string")
    return tuple([index_token(decode_token(p), lo, hi) for p in s.split("/")])[1:]


def join_tokens(parts, other, lo, hi):
    """`p / other` for a text that does not start with a slash: other's tokens (split at slashes,
    decoded) are appended to p's."""
    return tuple(list(parts) + [index_token(decode_token(p), lo, hi) for p in other.split("/")])


def unicode_unescape(s):
    """Placeholder for the optional backslash-escape decoding step (outside RFC 6901; summarised in the
    contracts as one uninterpreted function shared with JSONPointer._unicode_escape)."""
    return s


def truediv_parts(parts, other, lo, hi):
    """`p / other`: the text (leading blanks dropped, escapes decoded) either is a whole pointer
    (leading slash: it replaces p) or names further tokens below p."""
    o = unicode_unescape(other.lstrip())
    if o.startswith("/"):
        return None
    return join_tokens(parts, o, lo, hi)


def from_parts_tokens(parts):
    """A pointer built from a token list (no optional decoding) holds the tokens' texts."""
    return tuple([str(p) for p in parts])

"""C12: the query iterator's operations as list operations on the sequence of remaining matches.

Each function takes the list `v` of matches still to be produced and returns
(what the operation hands back as a list, what remains in the original iterator afterwards)."""


def limit(v, n):
    if n < 0:
        raise ValueError("negative count")
    return (v[:n], v[:n])  # returns the iterator itself, now limited


def drop(v, n):
    if n < 0:
        raise ValueError("negative count")
    return (v[n:], v[n:])


def tail(v, n):
    if n < 0:
        raise ValueError("negative count")
    k = max(len(v) - n, 0)
    return (v[k:], v[k:])


def take(v, n):
    if n < 0:
        raise ValueError("negative count")
    return (v[:n], v[n:])


def first_one(v):
    if len(v) > 0:
        return (v[0], v[1:])
    return (None, v)


def last_one(v):
    if len(v) > 0:
        return (v[len(v) - 1], [])
    return (None, [])


def tee(v, n):
    if n < 0:
        raise ValueError("negative count")
    return ([v for _ in range(n)], [])


def values(v):
    return ([m.obj for m in v], [])


def locations(v):
    return ([m.path for m in v], [])


def items(v):
    return ([(m.path, m.obj) for m in v], [])

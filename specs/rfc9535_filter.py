"""RFC 9535 section 2.3.5 (filter selector) and 2.4 (function extensions): spec of comparison,
existence test and logical operators over the operands the evaluator passes around:
a JSON value, the special result Nothing (`UNDEFINED`), or a nodelist (`NodeList`)."""
from jsonpath.filter import UNDEFINED
from jsonpath.match import JSONPathMatch
from jsonpath.match import NodeList

import re

from jsonpath.selectors import FilterContext
from specs.prims import json_equal
from specs.rfc9535 import child_element
from specs.rfc9535 import child_member


def is_nothing(x):
    """2.3.5.2.2: an empty nodelist or the special result Nothing."""
    if x is UNDEFINED:
        return True
    if isinstance(x, NodeList):
        return len(x) == 0
    return False


def is_number(x):
    if isinstance(x, bool):
        return False
    return isinstance(x, (int, float))


def rfc_eq(left, right):
    """`==`: Nothing equals only Nothing; otherwise JSON value equality (deep, bool is not a number)."""
    if is_nothing(left) or is_nothing(right):
        return is_nothing(left) and is_nothing(right)
    return json_equal(left, right)


def rfc_lt(left, right):
    """`<`: only between two numbers or two strings; false for everything else."""
    if is_number(left) and is_number(right):
        return left < right
    if isinstance(left, str) and isinstance(right, str):
        return left < right
    return False


def rfc_test(x):
    """2.3.5.2.1: a nodelist in a logical position is an existence test, whatever it holds;
    a LogicalType value is itself; Nothing is false."""
    if isinstance(x, NodeList):
        return len(x) > 0
    if x is UNDEFINED:
        return False
    return x


def rfc_compare(left, op, right):
    if op == "==":
        return rfc_eq(left, right)
    if op == "!=":
        return not rfc_eq(left, right)
    if op == "<":
        return rfc_lt(left, right)
    if op == ">":
        return rfc_lt(right, left)
    if op == "<=":
        return rfc_lt(left, right) or rfc_eq(left, right)
    if op == ">=":
        return rfc_lt(right, left) or rfc_eq(left, right)
    if op == "&&":
        return rfc_test(left) and rfc_test(right)
    if op == "||":
        return rfc_test(left) or rfc_test(right)
    return False


# ---- documented extensions (C13)

def ext_compare(left, op, right):
    if op == "<>":
        return not rfc_eq(left, right)
    if op == "in":
        return member_of(left, right)
    if op == "contains":
        return member_of(right, left)
    if op == "=~":
        if is_pattern(right) and isinstance(left, str):
            return bool(right.fullmatch(left))
        return False
    return rfc_compare(left, op, right)


def member_of(x, container):
    """`x in container`: element of an array, substring of a string, member name of an object;
    false (never an exception) when the question makes no sense."""
    if isinstance(container, NodeList):
        return False
    if isinstance(container, list):
        return x in container
    if isinstance(container, str):
        if isinstance(x, str):
            return x in container
        return False
    if isinstance(container, dict):
        if isinstance(x, (list, dict)):
            return False
        return x in container
    return False


def is_pattern(x):

    return isinstance(x, re.Pattern)


# ---- filter expression nodes (2.3.5.1 syntax / 2.3.5.2 semantics)

def singular(x):
    """2.3.5.2.2: a singular query used as a comparable stands for the value of its single node."""
    if isinstance(x, NodeList):
        if len(x) == 1:
            return x[0].obj
    return x


def infix_evaluate(expr, context):
    """`left op right`: comparison (operands unwrapped) or logical and/or (operands as tests)."""
    left = expr.left.evaluate(context)
    right = expr.right.evaluate(context)
    if expr.operator == "&&" or expr.operator == "||":
        return ext_compare(left, expr.operator, right)
    return ext_compare(singular(left), expr.operator, singular(right))


def prefix_evaluate(expr, context):
    """`!e`: logical negation of the test / logical value of e."""
    return not rfc_test(expr.right.evaluate(context))


def boolean_evaluate(expr, context):
    """The filter selector's logical expression: a test (existence, not truthiness)."""
    return rfc_test(expr.expression.evaluate(context))


def list_literal_evaluate(expr, context):
    return [item.evaluate(context) for item in expr.items]


def current_key_evaluate(context):
    """`#`: the member name or array index of the candidate child (Nothing at the root)."""
    if context.current_key is None:
        return UNDEFINED
    return context.current_key


# ---- embedded queries (2.3.5.1: filter-query = rel-query / jsonpath-query)

def self_path_evaluate(expr, context):
    """`@...`: the nodelist of the relative query started at the candidate child; inside it `$`
    still denotes the root of the query argument and the filter context is the caller's."""
    return NodeList(query_nodes(expr.path, context.current, context.root, context.extra_context))


def root_path_evaluate(expr, context):
    """`$...`: the nodelist of the query started at the root of the query argument."""
    return NodeList(query_nodes(expr.path, context.root, context.root, context.extra_context))


def filter_context_path_evaluate(expr, context):
    """`_...` (documented extension): the query started at the caller-supplied mapping."""
    return NodeList(query_nodes(expr.path, context.extra_context, context.extra_context, context.extra_context))


def query_nodes(path, start, root, filter_context):
    """Apply the segments of `path` to the single node `start`, whose root is `root`."""


    matches = [
        JSONPathMatch(
            filter_context=filter_context,
            obj=[start] if path.fake_root else start,
            parent=None,
            path=path.env.root_token,
            parts=(),
            root=root,
        )
    ]
    for selector in path.selectors:
        matches = selector.resolve(matches)
    return matches


# ---- 2.3.5 filter selector: which children are selected, and the context of the test

def filter_selector(expression, env, m):


    obj = m.obj
    if isinstance(obj, dict):
        for k, v in obj.items():
            context = FilterContext(env=env, current=v, root=m.root, extra_context=m.filter_context(), current_key=k)
            if expression.evaluate(context):
                yield child_member(m, k, v)
    elif isinstance(obj, list):
        for i, v in enumerate(obj):
            context = FilterContext(env=env, current=v, root=m.root, extra_context=m.filter_context(), current_key=i)
            if expression.evaluate(context):
                yield child_element(m, i, v)


def filter_segment(expression, env, matches):
    for m in matches:
        yield from filter_selector(expression, env, m)


# ---- 2.4 function extensions

def value_argument(x):
    """2.4.3: a ValueType parameter given a singular query takes the node's value, or Nothing."""
    if isinstance(x, NodeList):
        if len(x) == 0:
            return UNDEFINED
        if len(x) == 1:
            return x[0].obj
    return x


def fn_length(v):
    """2.4.4"""
    if isinstance(v, (str, list, dict)):
        return len(v)
    return UNDEFINED


def fn_count(nodes):
    """2.4.5"""
    return len(nodes)


def fn_value(nodes):
    """2.4.8"""
    if len(nodes) == 1:
        return nodes[0].obj
    return UNDEFINED


def fn_match(s, p):
    """2.4.6 (regular expressions restricted to the dialect shared by `re` and I-Regexp)"""
    if isinstance(s, str) and isinstance(p, str):
        try:
            return bool(re.fullmatch(p, s))
        except re.error:
            return False
    return False


def fn_search(s, p):
    """2.4.7"""
    if isinstance(s, str) and isinstance(p, str):
        try:
            return bool(re.search(p, s))
        except re.error:
            return False
    return False


def function_evaluate(expr, context):
    args = [a.evaluate(context) for a in expr.args]
    if expr.name == "length":
        return fn_length(value_argument(args[0]))
    if expr.name == "count":
        return fn_count(args[0])
    if expr.name == "value":
        return fn_value(args[0])
    if expr.name == "match":
        return fn_match(value_argument(args[0]), value_argument(args[1]))
    if expr.name == "search":
        return fn_search(value_argument(args[0]), value_argument(args[1]))
    return UNDEFINED


# ---- C11: the entry points, stated over find-iter

def findall_of(path, data, filter_context):
    """find-all is the list of the values of find-iter."""
    return [m.obj for m in path.finditer(data, filter_context=filter_context)]


def match_of(path, data, filter_context):
    """match is the first element of find-iter, or nothing."""
    ms = list(path.finditer(data, filter_context=filter_context))
    if len(ms) > 0:
        return ms[0]
    return None


def env_findall(env, path, data, filter_context):
    return env.compile(path).findall(data, filter_context=filter_context)


def env_finditer(env, path, data, filter_context):
    return env.compile(path).finditer(data, filter_context=filter_context)


def env_match(env, path, data, filter_context):
    return env.compile(path).match(data, filter_context=filter_context)


def env_query(env, path, data, filter_context):
    return env.compile(path).query(data, filter_context=filter_context)

"""RFC 9535 section 2.3.5 (filter selector) and 2.4 (function extensions): spec of comparison,
existence test and logical operators over the operands the evaluator passes around:
a JSON value, the special result Nothing (`UNDEFINED`), or a nodelist (`NodeList`)."""
from jsonpath.filter import UNDEFINED
from jsonpath.match import NodeList

import re

from specs.prims import json_equal


def is_nothing(x):
    """2.3.5.2.2: an empty nodelist or the special result Nothing."""
    if x is UNDEFINED:
        return True
    if isinstance(x, NodeList):
        return len(x) == 0
    return False


def is_number(x):
    if isinstance(x, bool):
        return False
    return isinstance(x, (int, float))


def rfc_eq(left, right):
    """`==`: Nothing equals only Nothing; otherwise JSON value equality (deep, bool is not a number)."""
    if is_nothing(left) or is_nothing(right):
        return is_nothing(left) and is_nothing(right)
    return json_equal(left, right)


def rfc_lt(left, right):
    """`<`: only between two numbers or two strings; false for everything else."""
    if is_number(left) and is_number(right):
        return left < right
    if isinstance(left, str) and isinstance(right, str):
        return left < right
    return False


def rfc_test(x):
    """2.3.5.2.1: a nodelist in a logical position is an existence test, whatever it holds;
    a LogicalType value is itself; Nothing is false."""
    if isinstance(x, NodeList):
        return len(x) > 0
    if x is UNDEFINED:
        return False
    return x


def rfc_compare(left, op, right):
    if op == "==":
        return rfc_eq(left, right)
    if op == "!=":
        return not rfc_eq(left, right)
    if op == "<":
        return rfc_lt(left, right)
    if op == ">":
        return rfc_lt(right, left)
    if op == "<=":
        return rfc_lt(left, right) or rfc_eq(left, right)
    if op == ">=":
        return rfc_lt(right, left) or rfc_eq(left, right)
    if op == "&&":
        return rfc_test(left) and rfc_test(right)
    if op == "||":
        return rfc_test(left) or rfc_test(right)
    return False


# ---- documented extensions (C13)

def ext_compare(left, op, right):
    if op == "<>":
        return not rfc_eq(left, right)
    if op == "in":
        return member_of(left, right)
    if op == "contains":
        return member_of(right, left)
    if op == "=~":
        if is_pattern(right) and isinstance(left, str):
            return bool(right.fullmatch(left))
        return False
    return rfc_compare(left, op, right)


def member_of(x, container):
    """`x in container`: element of an array, substring of a string, member name of an object;
    false (never an exception) when the question makes no sense."""
    if isinstance(container, NodeList):
        return False
    if isinstance(container, list):
        return x in container
    if isinstance(container, str):
        if isinstance(x, str):
            return x in container
        return False
    if isinstance(container, dict):
        if isinstance(x, (list, dict)):
            return False
        return x in container
    return False


def is_pattern(x):

    return isinstance(x, re.Pattern)

"""C19: what `Query.select` produces for one match, stated over the relative matches.

`place(location, node, value)` and `compacted(node)` are the two steps of building a projection value
(insert a selected value at its location; replace each array index by its rank among the indices
selected in that array).  The skeleton below is the statement; the two steps are contracted separately."""
from jsonpath.fluent_api import Projection


def place(location, node, value):  # contracted abstractly (contracts/projection.py)
    raise NotImplementedError


def compacted(node):  # contracted abstractly
    raise NotImplementedError


def new_node():  # contracted abstractly: a fresh, empty projection node
    raise NotImplementedError


def relative_matches(env, expr, value):
    path = env.compile(expr) if isinstance(expr, str) else expr
    return path.finditer(value)


def select_one(env, match, expressions, projection):
    """Non-containers give no projection.  Flat: the selected values in selection order.  Relative:
    every selected value placed at its location relative to the match; root: at its location from the
    document root (the match's own location followed by the relative one); then compacted."""
    if isinstance(match.obj, str) or not isinstance(match.obj, (list, dict)):
        return None
    if projection == Projection.FLAT:
        out = []
        for expr in expressions:
            for rel in relative_matches(env, expr, match.obj):
                out.append(rel.obj)
        return out
    node = new_node()
    for expr in expressions:
        for rel in relative_matches(env, expr, match.obj):
            if projection == Projection.RELATIVE:
                place(rel.parts, node, rel.obj)
            else:
                place(match.parts + rel.parts, node, rel.obj)
    return compacted(node)


# ---- compaction, one level (the recursion is the same function on the children)

def fix(value):  # the compaction of a child: contracted abstractly (modular recursion)
    raise NotImplementedError


def compact_one(value, is_node):
    """Every container is copied level by level; strings, scalars and empty containers are themselves.  A projection node whose keys are array indices
    becomes the array of its (compacted) children in ascending index order - i.e. each index is replaced
    by its rank among the indices selected in that array; any other object keeps its members."""
    if isinstance(value, str) or not value:
        return value
    if isinstance(value, list):
        return [fix(e) for e in value]
    if isinstance(value, dict):
        if is_node and isinstance(next(iter(value)), int):
            return [fix(v) for _, v in sorted(value.items())]
        return {k: fix(v) for k, v in value.items()}
    return value


# ---- placement, stated recursively on the projection nodes themselves

def is_node(x):  # contracted abstractly: x is a projection node (not a selected value)
    raise NotImplementedError


def place_at(node, location, value):
    """Put `value` at `location` below the projection node `node`, creating the nodes on the way.
    A position on the way that already holds a selected value (not a node) means an ancestor was
    selected as a whole: that value already contains the target and nothing changes."""
    head = location[0]
    if len(location) == 1:
        node[head] = value
        return None
    if head in node:
        child = node[head]
        if is_node(child):
            place_at(child, location[1:], value)
        return None
    child = new_node()
    node[head] = child
    place_at(child, location[1:], value)
    return None

"""C19: what `Query.select` produces for one match, stated over the relative matches.

`place(location, node, value)` and `compacted(node)` are the two steps of building a projection value
(insert a selected value at its location; replace each array index by its rank among the indices
selected in that array).  The skeleton below is the statement; the two steps are contracted separately."""
from jsonpath.fluent_api import Projection


def place(location, node, value):  # contracted abstractly (contracts/projection.py)
    raise NotImplementedError


def compacted(node):  # contracted abstractly
    raise NotImplementedError


def new_node():  # contracted abstractly: a fresh, empty projection node
    raise NotImplementedError


def relative_matches(env, expr, value):
    path = env.compile(expr) if isinstance(expr, str) else expr
    return path.finditer(value)


def select_one(env, match, expressions, projection):
    """Non-containers give no projection.  Flat: the selected values in selection order.  Relative:
    every selected value placed at its location relative to the match; root: at its location from the
    document root (the match's own location followed by the relative one); then compacted."""
    if isinstance(match.obj, str) or not isinstance(match.obj, (list, dict)):
        return None
    if projection == Projection.FLAT:
        out = []
        for expr in expressions:
            for rel in relative_matches(env, expr, match.obj):
                out.append(rel.obj)
        return out
    node = new_node()
    for expr in expressions:
        for rel in relative_matches(env, expr, match.obj):
            if projection == Projection.RELATIVE:
                place(rel.parts, node, rel.obj)
            else:
                place(match.parts + rel.parts, node, rel.obj)
    return compacted(node)

"""RFC 9535 2.1 / 2.3 / 2.4.3 compile-time rules, stated independently of the library."""
from jsonpath.selectors import IndexSelector
from jsonpath.selectors import ListSelector
from jsonpath.selectors import PropertySelector


def in_range(value, lo, hi):
    """2.1: integers used as indices / slice bounds lie within the configured (I-JSON) range."""
    return lo <= value <= hi


def check_bound(value, lo, hi):
    """None (omitted) is always fine; an integer must be in range."""
    if value is None:
        return True
    return in_range(value, lo, hi)


def singular_query(selectors):
    """2.3.5.1: a singular query has only name and index segments, each with exactly one selector."""
    for s in selectors:
        if isinstance(s, (PropertySelector, IndexSelector)):
            continue
        if isinstance(s, ListSelector):
            if len(s.items) == 1:
                if isinstance(s.items[0], (PropertySelector, IndexSelector)):
                    continue
        return False
    return True


# ---- 2.4.1 - 2.4.3: well-typedness of function expressions (the five standard functions, 2.4.4 - 2.4.8)

VALUE, LOGICAL, NODES = "ValueType", "LogicalType", "NodesType"

SIGNATURES = {
    "length": ((VALUE,), VALUE),
    "count": ((NODES,), VALUE),
    "match": ((VALUE, VALUE), LOGICAL),
    "search": ((VALUE, VALUE), LOGICAL),
    "value": ((NODES,), VALUE),
}


def argument_ok(param, kind, singular, result):
    """2.4.3, "well-typedness of function expressions": an argument is a literal, a filter query
    (singular or not), a logical expression or a function expression (with declared result type).
      ValueType  parameter: a literal; a singular query; a function expression of declared type ValueType.
      LogicalType parameter: a logical expression; a function expression of declared type LogicalType or
                             NodesType; any filter query (existence test).
      NodesType  parameter: any filter query; a function expression of declared type NodesType."""
    if param == VALUE:
        return kind == "literal" or (kind == "query" and singular) or (kind == "function" and result == VALUE)
    if param == LOGICAL:
        return kind == "logical" or kind == "query" or (kind == "function" and result in (LOGICAL, NODES))
    return kind == "query" or (kind == "function" and result == NODES)


def call_ok(name, args):
    """args: tuples (kind, singular, declared result type or None)."""
    params, _ = SIGNATURES[name]
    if len(args) != len(params):
        return False
    return all(argument_ok(p, *a) for p, a in zip(params, args))


def usable_as_test(kind, result):
    """2.3.5.1 / 2.4.3: a test expression is a filter query or a function expression of declared type
    LogicalType or NodesType; literals and ValueType function results must be compared."""
    if kind == "literal":
        return False
    if kind == "function":
        return result in (LOGICAL, NODES)
    return True


def comparable(kind, singular, result):
    """2.3.5.1 / 2.4.3: a comparable is a literal, a singular query or a function expression of declared
    type ValueType."""
    if kind == "literal":
        return True
    if kind == "query":
        return singular
    if kind == "function":
        return result == VALUE
    return False

"""RFC 9535 2.1 / 2.3 / 2.4.3 compile-time rules, stated independently of the library."""
from jsonpath.selectors import IndexSelector
from jsonpath.selectors import ListSelector
from jsonpath.selectors import PropertySelector


def in_range(value, lo, hi):
    """2.1: integers used as indices / slice bounds lie within the configured (I-JSON) range."""
    return lo <= value <= hi


def check_bound(value, lo, hi):
    """None (omitted) is always fine; an integer must be in range."""
    if value is None:
        return True
    return in_range(value, lo, hi)


def singular_query(selectors):
    """2.3.5.1: a singular query has only name and index segments, each with exactly one selector."""
    for s in selectors:
        if isinstance(s, (PropertySelector, IndexSelector)):
            continue
        if isinstance(s, ListSelector):
            if len(s.items) == 1:
                if isinstance(s.items[0], (PropertySelector, IndexSelector)):
                    continue
        return False
    return True

"""RFC 6902 (JSON Patch) section 4: the operations, stated on the container that holds the target
(`parent`, located by the RFC 6901 evaluation of all but the last token) and the last token.

`path.resolve_parent(data)` is used through its contract (specs/rfc6901.resolve_parent, proved for
the real function in contracts/pointer.py); everything decided here is taken from the RFC text."""
import copy

from jsonpath.exceptions import JSONPatchError
from jsonpath.exceptions import JSONPatchTestFailure
from jsonpath.pointer import UNDEFINED

from specs.prims import canonical_nat
from specs.prims import json_equal


def array_index(token, allow_end, length):
    """4.1: an array index is a canonical non-negative decimal; `-` (only where allowed) is the
    index after the last element.  Returns the index or raises."""
    if isinstance(token, str):
        if token == "-":
            if allow_end:
                return length
            raise JSONPatchError("'-' does not name an existing element")
        if not canonical_nat(token):
            raise JSONPatchError("not an array index")
        idx = int(token)
    else:
        idx = token
        if idx < 0:
            raise JSONPatchError("not an array index")
    return idx


def member_name(token):
    """Member names are strings, also when they look like integers."""
    if isinstance(token, str):
        return token
    return str(token)


def insert_into(parent, token, value):
    """The shared 'add' semantics of add / move / copy (4.1): insert before the index
    (index == length or `-` appends), or set the member."""
    if isinstance(parent, list):
        idx = array_index(token, True, len(parent))
        if idx > len(parent):
            raise JSONPatchError("index out of range")
        parent.insert(idx, value)
    elif isinstance(parent, dict):
        parent[member_name(token)] = value
    else:
        raise JSONPatchError("the target location's parent is not an array or object")


def remove_from(parent, token):
    """4.2: the target must exist."""
    if isinstance(parent, list):
        idx = array_index(token, False, len(parent))
        if idx >= len(parent):
            raise JSONPatchError("index out of range")
        del parent[idx]
    elif isinstance(parent, dict):
        name = member_name(token)
        if name not in parent:
            raise JSONPatchError("no such member")
        del parent[name]
    else:
        raise JSONPatchError("the target location's parent is not an array or object")


def op_add(path, value, data):
    parent, obj = path.resolve_parent(data)
    if parent is None:
        return value
    insert_into(parent, path.parts[-1], value)
    return data


def op_remove(path, data):
    parent, obj = path.resolve_parent(data)
    if parent is None:
        raise JSONPatchError("can't remove root")
    remove_from(parent, path.parts[-1])
    return data


def op_replace(path, value, data):
    """4.3: the target must exist; same as remove followed by add at the same location."""
    parent, obj = path.resolve_parent(data)
    if parent is None:
        return value
    token = path.parts[-1]
    if isinstance(parent, list):
        idx = array_index(token, False, len(parent))
        if idx >= len(parent):
            raise JSONPatchError("index out of range")
        parent[idx] = value
    elif isinstance(parent, dict):
        name = member_name(token)
        if name not in parent:
            raise JSONPatchError("no such member")
        parent[name] = value
    else:
        raise JSONPatchError("the target location's parent is not an array or object")
    return data


def op_test(path, value, data):
    """4.6: deep JSON equality (a boolean is never a number)."""
    parent, obj = path.resolve_parent(data)
    if obj is UNDEFINED:
        raise JSONPatchTestFailure
    if not json_equal(obj, value):
        raise JSONPatchTestFailure
    return data


def op_move(source, dest, data):
    """4.4: remove at `from`, then add the removed value at `path`; a location cannot be moved into
    one of its children."""
    if dest.is_relative_to(source):
        raise JSONPatchError("can't move a value into one of its own children")
    parent, obj = source.resolve_parent(data)
    if obj is UNDEFINED:
        raise JSONPatchError("the from location must exist")
    if parent is None:
        # the whole document: every other destination is one of its children (refused above), so
        # this is the document moved onto itself
        return obj
    remove_from(parent, source.parts[-1])
    return op_add(dest, obj, data)


def op_copy(source, dest, data):
    """4.5: add a copy of the value at `from` at `path` (independent of its source)."""
    parent, obj = source.resolve_parent(data)
    if obj is UNDEFINED:
        raise JSONPatchError("the from location must exist")
    return op_add(dest, copy.deepcopy(obj), data)


# ---- documented variants (C15)

def op_addne(path, value, data):
    """`addne`: as add, but an existing object member is left untouched."""
    parent, obj = path.resolve_parent(data)
    if parent is None:
        return value
    if isinstance(parent, dict):
        if member_name(path.parts[-1]) in parent:
            return data
    insert_into(parent, path.parts[-1], value)
    return data


def op_addap(path, value, data):
    """`addap`: as add, but append when the array index cannot be resolved."""
    parent, obj = path.resolve_parent(data)
    if parent is None:
        return value
    if isinstance(parent, list):
        if obj is UNDEFINED:
            parent.append(value)
            return data
    insert_into(parent, path.parts[-1], value)
    return data

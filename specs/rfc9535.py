"""RFC 9535 section 2.3 (selectors), 2.5 (segments), 2.7 (normalized paths): node-level spec.

A node is represented by the library's own `JSONPathMatch` record (value, location parts,
normalized path, root, filter context, parent); nothing of the library's logic is used.
"""
from jsonpath.match import JSONPathMatch
from jsonpath.serialize import canonical_string  # 2.7 name escape; its string law is checked bounded (C03)


def child_member(m, name, value):
    """The child node of `m` for member `name` (RFC 9535 2.7: ['name'] step)."""
    return JSONPathMatch(
        filter_context=m.filter_context(),
        obj=value,
        parent=m,
        parts=m.parts + (name,),
        path=m.path + "[" + canonical_string(name) + "]",
        root=m.root,
    )


def child_element(m, index, value):
    """The child node of `m` for array element `index` >= 0 (RFC 9535 2.7: [index] step)."""
    return JSONPathMatch(
        filter_context=m.filter_context(),
        obj=value,
        parent=m,
        parts=m.parts + (index,),
        path=m.path + "[" + str(index) + "]",
        root=m.root,
    )


def child_member_decimal(m, index, value):
    """Documented departure: index selector on an object, member named str(index).

    The normalized path of a name made of an optional '-' and digits is the name itself in
    single quotes (RFC 9535 2.7: none of these characters is escaped)."""
    return JSONPathMatch(
        filter_context=m.filter_context(),
        obj=value,
        parent=m,
        parts=m.parts + (str(index),),
        path=m.path + "['" + str(index) + "']",
        root=m.root,
    )


# ---- 2.3.1 name selector

def name_selector(name, m):
    obj = m.obj
    if isinstance(obj, dict):
        if name in obj:
            yield child_member(m, name, obj[name])


# ---- 2.3.3 index selector (+ documented departure for objects)

def index_selector(index, m):
    obj = m.obj
    if isinstance(obj, list):
        n = len(obj)
        if index >= 0:
            if index < n:
                yield child_element(m, index, obj[index])
        else:
            if n + index >= 0:
                yield child_element(m, n + index, obj[n + index])
    elif isinstance(obj, dict):
        k = str(index)
        if k in obj:
            yield child_member_decimal(m, index, obj[k])


# ---- 2.3.2 wildcard selector

def wildcard_selector(m):
    obj = m.obj
    if isinstance(obj, dict):
        for k, v in obj.items():
            yield child_member(m, k, v)
    elif isinstance(obj, list):
        for i, v in enumerate(obj):
            yield child_element(m, i, v)


# ---- 2.3.4 array slice selector

def slice_normalize(i, n):
    if i >= 0:
        return i
    return n + i


def slice_bounds(start, end, step, n):
    """RFC 9535 2.3.4.2.2 Bounds(), with the defaults of the table in 2.3.4.2.1."""
    if step >= 0:
        s = 0 if start is None else start
        e = n if end is None else end
    else:
        s = n - 1 if start is None else start
        e = -n - 1 if end is None else end
    n_start = slice_normalize(s, n)
    n_end = slice_normalize(e, n)
    if step >= 0:
        lower = min(max(n_start, 0), n)
        upper = min(max(n_end, 0), n)
    else:
        upper = min(max(n_start, -1), n - 1)
        lower = min(max(n_end, -1), n - 1)
    return lower, upper


def slice_selector(start, end, step, m):
    obj = m.obj
    if isinstance(obj, list):
        st = 1 if step is None else step
        if st != 0:
            n = len(obj)
            lower, upper = slice_bounds(start, end, st, n)
            if st > 0:
                for i in range(lower, upper, st):
                    yield child_element(m, i, obj[i])
            else:
                for i in range(upper, lower, st):
                    yield child_element(m, i, obj[i])


# ---- 2.5.2 descendant segment: the nodes visited, parents before children, in document order

def descendants(m):
    """All proper descendants of `m` that are arrays or objects, pre-order.

    (Scalars and strings are descendants too, but every selector yields nothing on them -
    lemma `filter_skip` in lemmas/Rules.lean - so visiting containers only is equivalent.)"""
    obj = m.obj
    if isinstance(obj, dict):
        for k, v in obj.items():
            if isinstance(v, (dict, list)):
                c = child_member(m, k, v)
                yield c
                yield from descendants(c)
    elif isinstance(obj, list):
        for i, v in enumerate(obj):
            if isinstance(v, (dict, list)):
                c = child_element(m, i, v)
                yield c
                yield from descendants(c)


def descendant_segment_nodes(m):
    yield m
    yield from descendants(m)


# ---- non-standard keys selector (C13)

def keys_selector(keys_token, m):
    obj = m.obj
    if isinstance(obj, dict):
        for i, k in enumerate(obj.keys()):
            yield JSONPathMatch(
                filter_context=m.filter_context(),
                obj=k,
                parent=m,
                parts=m.parts + (keys_token + k,),
                path=m.path + "[" + keys_token + "][" + str(i) + "]",
                root=m.root,
            )


# ---- segments: a selector applied to every input node, results concatenated in input order (2.5.1)

def name_segment(name, matches):
    for m in matches:
        yield from name_selector(name, m)


def index_segment(index, matches):
    for m in matches:
        yield from index_selector(index, m)


def wildcard_segment(matches):
    for m in matches:
        yield from wildcard_selector(m)


def slice_segment(start, end, step, matches):
    for m in matches:
        yield from slice_selector(start, end, step, m)


def descendant_segment(matches):
    for m in matches:
        yield from descendant_segment_nodes(m)


def keys_segment(keys_token, matches):
    for m in matches:
        yield from keys_selector(keys_token, m)


def list_segment(items, matches):
    """2.5.1.2: for each input node, the concatenation of each selector's result, in list order."""
    for m in matches:
        for item in items:
            yield from item.resolve([m])

"""Primitive spec predicates with an executable definition here and a direct z3 meaning in
contracts/common.py (so that deep recursion over JSON values is not unrolled symbolically)."""


def json_equal(a, b):
    """RFC 9535 2.3.5.2.2 / RFC 6902 4.6: equality of JSON values.

    numbers by mathematical value, strings by code points, arrays element-wise, objects as
    unordered member sets, true/false/null only equal to themselves; a boolean is never a number.
    """
    if isinstance(a, bool) or isinstance(b, bool):
        return isinstance(a, bool) and isinstance(b, bool) and a == b
    if isinstance(a, (int, float)) and isinstance(b, (int, float)):
        return a == b
    if isinstance(a, str) and isinstance(b, str):
        return a == b
    if a is None or b is None:
        return a is None and b is None
    if isinstance(a, list) and isinstance(b, list):
        return len(a) == len(b) and all(json_equal(x, y) for x, y in zip(a, b))
    if isinstance(a, dict) and isinstance(b, dict):
        return len(a) == len(b) and all(k in b and json_equal(v, b[k]) for k, v in a.items())
    return False


import re as _re

_CANON_INT = _re.compile(r"0|-?[1-9][0-9]*")
_CANON_NAT = _re.compile(r"0|[1-9][0-9]*")


def canonical_int(s):
    """`s` is the canonical decimal spelling of an integer: str(int(s)) == s (ASCII digits)."""
    return isinstance(s, str) and _CANON_INT.fullmatch(s) is not None


def canonical_nat(s):
    """RFC 6901 section 4 array-index: "0" or a digit string without leading zero."""
    return isinstance(s, str) and _CANON_NAT.fullmatch(s) is not None

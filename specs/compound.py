"""C11, compound queries: `left | right` is the left result followed by the right one, `left & right` is
the left result restricted to the values the right one also produces; operands are applied left to
right.  Stated once over values (find-all) and once over nodes (find-iter); that the first is the
list of values of the second is the list lemma `values_of_compound` (lemmas/Compound.lean)."""


def compound_values(first, rest, data, filter_context, union_token):
    objs = first.findall(data, filter_context=filter_context)
    for op, path in rest:
        vals = path.findall(data, filter_context=filter_context)
        if op == union_token:
            objs = objs + vals
        else:
            objs = [o for o in objs if o in vals]
    return objs


def compound_nodes(first, rest, data, filter_context, union_token):
    nodes = list(first.finditer(data, filter_context=filter_context))
    for op, path in rest:
        others = list(path.finditer(data, filter_context=filter_context))
        if op == union_token:
            nodes = nodes + others
        else:
            vals = [m.obj for m in others]
            nodes = [m for m in nodes if m.obj in vals]
    return nodes


def first_of(nodes):
    if len(nodes) > 0:
        return nodes[0]
    return None

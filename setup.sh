#!/bin/sh
# Offline setup: nothing is fetched or compiled; verify that the tooling the checks need is present.
set -e
cd "$(dirname "$0")"
python3-vt -c "import z3; print('z3', z3.get_version_string())"
PYTHONPATH=/repo:. python3-vt -c "import jsonpath, pyvc.sorts; print('jsonpath importable from', jsonpath.__file__)"
/venv/bin/python -c "import jsonpath"
mkdir -p evidence replays

/-
  RFC 6901 section 3/4 text codec of JSON Pointers: the string laws behind C03, C04, C14, C20.
  Checked with core Lean 4 (no Mathlib): `lean lemmas/PointerText.lean` must exit 0.

  The real functions `JSONPointer._encode` and `JSONPointer._parse` are proved (pyvc contracts
  `JSONPointer._encode==pointer_text`, `JSONPointer._parse==parse_text`, `JSONPointer.__truediv__==...`)
  to be exactly the compositions of `str.replace`, `str.split`, `str.join` written below as
  `text` and `parse`; the verifier treats those three library functions as uninterpreted.  This file
  supplies their algebra.  What is ASSUMED (and cross-checked against CPython on every run for all
  strings over {~ / 0 1 a} up to length 6 by monitors/pointer_text_model.py through `#eval`):
    `rep1 c new`   is `s.replace(c, new)`   for a one-character pattern,
    `rep2 a b new` is `s.replace(a+b, new)` for a two-character pattern (leftmost, non-overlapping),
    `split sep`    is `s.split(sep)`        for a one-character separator,
    `join sep`     is `sep.join(xs)`.
-/

namespace PointerText

def rep1 (c : Char) (new : List Char) : List Char → List Char
  | [] => []
  | x :: xs => if x = c then new ++ rep1 c new xs else x :: rep1 c new xs

def rep2 (a b : Char) (new : List Char) : List Char → List Char
  | [] => []
  | [x] => [x]
  | x :: y :: rest =>
    if x = a ∧ y = b then new ++ rep2 a b new rest else x :: rep2 a b new (y :: rest)

def split (sep : Char) : List Char → List (List Char)
  | [] => [[]]
  | c :: cs =>
    if c = sep then [] :: split sep cs
    else match split sep cs with
      | [] => [[c]]
      | h :: t => (c :: h) :: t

def join (sep : Char) : List (List Char) → List Char
  | [] => []
  | [x] => x
  | x :: y :: r => x ++ sep :: join sep (y :: r)

/-- `t.replace("~", "~0").replace("/", "~1")` -/
def enc (t : List Char) : List Char := rep1 '/' ['~', '1'] (rep1 '~' ['~', '0'] t)

/-- `p.replace("~1", "/").replace("~0", "~")` -/
def dec (p : List Char) : List Char := rep2 '~' '0' ['~'] (rep2 '~' '1' ['/'] p)

/-- `JSONPointer._encode` on string tokens: `"/" + "/".join(enc t for t in ts) if ts else ""` -/
def text : List (List Char) → List Char
  | [] => []
  | t :: ts => '/' :: join '/' ((t :: ts).map enc)

/-- `JSONPointer._parse` before `_index`: `[dec p for p in s.split("/")][1:]` -/
def parse (s : List Char) : List (List Char) := ((split '/' s).map dec).tail

/-! ### replace -/

theorem rep2_skip (a b : Char) (new : List Char) (x : Char) (l : List Char) (h : x ≠ a) :
    rep2 a b new (x :: l) = x :: rep2 a b new l := by
  cases l with
  | nil => simp [rep2]
  | cons y r => simp [rep2, h]

theorem rep2_half (a b : Char) (new : List Char) (y : Char) (l : List Char) (h : y ≠ b) :
    rep2 a b new (a :: y :: l) = a :: rep2 a b new (y :: l) := by
  simp [rep2, h]

theorem rep2_hit (a b : Char) (new : List Char) (l : List Char) :
    rep2 a b new (a :: b :: l) = new ++ rep2 a b new l := by
  simp [rep2]

theorem enc_cons_tilde (t : List Char) : enc ('~' :: t) = '~' :: '0' :: enc t := by
  simp [enc, rep1]

theorem enc_cons_slash (t : List Char) : enc ('/' :: t) = '~' :: '1' :: enc t := by
  simp [enc, rep1]

theorem enc_cons_other (c : Char) (t : List Char) (h1 : c ≠ '~') (h2 : c ≠ '/') :
    enc (c :: t) = c :: enc t := by
  simp [enc, rep1, h1, h2]

theorem enc_nil : enc [] = [] := by simp [enc, rep1]

/-- RFC 6901 section 4: decoding `~1` first and `~0` second undoes the escaping of section 3. -/
theorem dec_enc (t : List Char) : dec (enc t) = t := by
  induction t with
  | nil => simp [enc, dec, rep1, rep2]
  | cons c t ih =>
    unfold dec at ih ⊢
    by_cases h1 : c = '~'
    · subst h1
      have e1 : rep2 '~' '1' ['/'] ('~' :: '0' :: enc t) = '~' :: '0' :: rep2 '~' '1' ['/'] (enc t) := by
        rw [rep2_half _ _ _ _ _ (by decide), rep2_skip _ _ _ _ _ (by decide)]
      rw [enc_cons_tilde, e1, rep2_hit, ih]
      rfl
    · by_cases h2 : c = '/'
      · subst h2
        rw [enc_cons_slash, rep2_hit]
        show rep2 '~' '0' ['~'] ('/' :: rep2 '~' '1' ['/'] (enc t)) = _
        rw [rep2_skip _ _ _ _ _ (by decide), ih]
      · rw [enc_cons_other c t h1 h2, rep2_skip _ _ _ _ _ h1, rep2_skip _ _ _ _ _ h1, ih]

/-- an encoded token contains no `/`, so the separators of the text are exactly the token borders -/
theorem enc_no_slash (t : List Char) : '/' ∉ enc t := by
  induction t with
  | nil => simp [enc_nil]
  | cons c t ih =>
    by_cases h1 : c = '~'
    · subst h1; rw [enc_cons_tilde]; simp [ih]
    · by_cases h2 : c = '/'
      · subst h2; rw [enc_cons_slash]; simp [ih]
      · rw [enc_cons_other c t h1 h2]
        simp only [List.mem_cons, not_or]
        exact ⟨fun h => h2 h.symm, ih⟩

/-! ### split / join -/

theorem split_single (sep : Char) (x : List Char) (h : sep ∉ x) : split sep x = [x] := by
  induction x with
  | nil => simp [split]
  | cons c x ih =>
    have hc : c ≠ sep := fun e => h (by simp [e])
    have hx : sep ∉ x := fun e => h (List.mem_cons_of_mem c e)
    simp [split, hc, ih hx]

theorem split_append (sep : Char) (x r : List Char) (h : sep ∉ x) :
    split sep (x ++ sep :: r) = x :: split sep r := by
  induction x with
  | nil => simp [split]
  | cons c x ih =>
    have hc : c ≠ sep := fun e => h (by simp [e])
    have hx : sep ∉ x := fun e => h (List.mem_cons_of_mem c e)
    simp [split, hc, ih hx]

theorem split_join (sep : Char) (xs : List (List Char)) (hne : xs ≠ [])
    (h : ∀ x, x ∈ xs → sep ∉ x) : split sep (join sep xs) = xs := by
  induction xs with
  | nil => exact absurd rfl hne
  | cons x xs ih =>
    cases xs with
    | nil => simp [join, split_single sep x (h x (by simp))]
    | cons y r =>
      have hx : sep ∉ x := h x (by simp)
      have := ih (by simp) (fun z hz => h z (List.mem_cons_of_mem x hz))
      simp only [join]
      rw [split_append sep x _ hx, this]

theorem split_ne_nil (sep : Char) (s : List Char) : split sep s ≠ [] := by
  cases s with
  | nil => simp [split]
  | cons c s =>
    by_cases hc : c = sep
    · simp [split, hc]
    · simp only [split, hc, if_false]
      cases split sep s <;> simp

/-- joining what `split` returned gives the text back (every text, no side condition) -/
theorem join_split (sep : Char) (s : List Char) : join sep (split sep s) = s := by
  induction s with
  | nil => simp [split, join]
  | cons c s ih =>
    by_cases hc : c = sep
    · subst hc
      simp only [split, if_true]
      cases hs : split c s with
      | nil => exact absurd hs (split_ne_nil c s)
      | cons h t => rw [hs] at ih; simp [join]; exact ih
    · simp only [split, hc, if_false]
      cases hs : split sep s with
      | nil => exact absurd hs (split_ne_nil sep s)
      | cons h t =>
        rw [hs] at ih
        cases t with
        | nil => simp [join] at ih ⊢; exact ih
        | cons y r => simp [join] at ih ⊢; exact ih

/-! ### the pointer text -/

/-- C04 / C14 / C03 / C20: parsing the RFC 6901 spelling of any token sequence gives the tokens back,
    whatever characters they contain. -/
theorem parse_text (ts : List (List Char)) : parse (text ts) = ts := by
  cases ts with
  | nil => simp [text, parse, split, dec, rep2]
  | cons t ts =>
    have hne : (t :: ts).map enc ≠ [] := by simp
    have hs : ∀ x, x ∈ (t :: ts).map enc → '/' ∉ x := by
      intro x hx
      obtain ⟨y, _, rfl⟩ := List.mem_map.mp hx
      exact enc_no_slash y
    have h := split_join '/' ((t :: ts).map enc) hne hs
    unfold parse text
    simp only [split, if_true]
    rw [h]
    simp only [List.map_cons, List.tail_cons, List.map_map]
    have : (dec ∘ enc) = id := funext dec_enc
    rw [dec_enc, this, List.map_id]

/-- two token sequences with the same spelling are the same sequence (spelling is injective) -/
theorem text_injective (a b : List (List Char)) (h : text a = text b) : a = b := by
  rw [← parse_text a, ← parse_text b, h]

/-! ### valid pointer texts print back as themselves (C14) -/

/-- RFC 6901 section 3 reference token: `~` only as `~0` or `~1`, no `/` -/
def validTok : List Char → Bool
  | [] => true
  | [c] => c != '~' && c != '/'
  | x :: y :: r =>
    if x = '~' then (y = '0' || y = '1') && validTok r
    else x != '/' && validTok (y :: r)

theorem dec_cons_other (x : Char) (l : List Char) (h : x ≠ '~') : dec (x :: l) = x :: dec l := by
  unfold dec
  rw [rep2_skip _ _ _ _ _ h, rep2_skip _ _ _ _ _ h]

theorem dec_tilde0 (l : List Char) : dec ('~' :: '0' :: l) = '~' :: dec l := by
  unfold dec
  have e1 : rep2 '~' '1' ['/'] ('~' :: '0' :: l) = '~' :: '0' :: rep2 '~' '1' ['/'] l := by
    rw [rep2_half _ _ _ _ _ (by decide), rep2_skip _ _ _ _ _ (by decide)]
  rw [e1, rep2_hit]
  rfl

theorem dec_tilde1 (l : List Char) : dec ('~' :: '1' :: l) = '/' :: dec l := by
  unfold dec
  rw [rep2_hit]
  show rep2 '~' '0' ['~'] ('/' :: rep2 '~' '1' ['/'] l) = _
  rw [rep2_skip _ _ _ _ _ (by decide)]

/-- on a valid reference token, escaping what was decoded gives the token back -/
theorem enc_dec : (p : List Char) → validTok p = true → enc (dec p) = p
  | [], _ => by simp [enc, dec, rep1, rep2]
  | [c], h => by
    simp [validTok] at h
    rw [dec_cons_other c [] h.1, enc_cons_other c _ h.1 h.2]
    simp [enc, dec, rep1, rep2]
  | x :: y :: r, h => by
    by_cases hx : x = '~'
    · subst hx
      simp [validTok] at h
      obtain ⟨hy, hr⟩ := h
      have ih := enc_dec r hr
      rcases hy with rfl | rfl
      · rw [dec_tilde0, enc_cons_tilde, ih]
      · rw [dec_tilde1, enc_cons_slash, ih]
    · simp [validTok, hx] at h
      have ih := enc_dec (y :: r) h.2
      rw [dec_cons_other x _ hx, enc_cons_other x _ hx h.1, ih]

/-- RFC 6901 section 3 json-pointer = *( "/" reference-token ) -/
def ValidPtr (s : List Char) : Prop :=
  s = [] ∨ ∃ r, s = '/' :: r ∧ ∀ p, p ∈ split '/' r → validTok p = true

/-- C14: parsing and printing a valid RFC 6901 pointer string returns the same string. -/
theorem text_parse (s : List Char) (h : ValidPtr s) : text (parse s) = s := by
  rcases h with rfl | ⟨r, rfl, hv⟩
  · simp [text, parse, split, dec, rep2]
  · have hp : parse ('/' :: r) = (split '/' r).map dec := by
      simp [parse, split]
    rw [hp]
    cases hs : split '/' r with
    | nil => exact absurd hs (split_ne_nil '/' r)
    | cons d ds =>
      have hm : ((d :: ds).map dec).map enc = d :: ds := by
        rw [List.map_map]
        have : ∀ p, p ∈ d :: ds → (enc ∘ dec) p = id p := by
          intro p hp'
          exact enc_dec p (hv p (hs ▸ hp'))
        rw [List.map_congr_left this, List.map_id]
      show '/' :: join '/' ((dec d :: ds.map dec).map enc) = _
      have hm' : (dec d :: ds.map dec).map enc = d :: ds := by simpa using hm
      rw [hm', ← hs, join_split]

end PointerText

/-! ### the library model against CPython

Prints, for every string over {~ / 0 1 a} of length <= 6, what the four modelled library functions
return; run_check.py compares each line with CPython's `str.replace` / `str.split` / `str.join`. -/

namespace PointerText

def allStrings (alpha : List Char) : Nat → List (List Char)
  | 0 => [[]]
  | n + 1 => (allStrings alpha n).flatMap (fun s => alpha.map (fun c => c :: s))

def upTo (alpha : List Char) (n : Nat) : List (List Char) :=
  (List.range (n + 1)).flatMap (allStrings alpha)

def showLine (s : List Char) : String :=
  String.intercalate "|" [
    String.ofList s,
    String.ofList (rep1 '~' ['~', '0'] s),
    String.ofList (rep1 '/' ['~', '1'] s),
    String.ofList (rep2 '~' '1' ['/'] s),
    String.ofList (rep2 '~' '0' ['~'] s),
    String.intercalate "," ((split '/' s).map String.ofList),
    String.ofList (join '/' (split 'a' s)),
    String.ofList (enc s),
    String.ofList (dec s),
    String.intercalate "," ((parse s).map String.ofList)]

end PointerText

#eval do
  for s in PointerText.upTo ['~', '/', '0', '1', 'a'] 6 do
    IO.println ("MODEL " ++ PointerText.showLine s)

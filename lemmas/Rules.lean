/-
  List lemmas behind the loop rules of pyvc and the spec-level link of C11.
  Checked with core Lean 4 (no Mathlib): `lean lemmas/Rules.lean` must exit 0.

  They are statements about lists (the mathematical content of the rules), transcribed by hand; the
  verifier's implementation of the rules is NOT derived from them (that gap is listed as trusted).
-/

namespace Pyvc

/-- foreach rule (congruence): two loops over the same domain whose bodies contribute the same
    items for every element collect the same sequence. -/
theorem foreach_congr {α β : Type} (xs : List α) (f g : α → List β)
    (h : ∀ x, x ∈ xs → f x = g x) : xs.flatMap f = xs.flatMap g := by
  induction xs with
  | nil => rfl
  | cons x xs ih =>
    simp only [List.flatMap_cons]
    rw [h x (List.mem_cons_self), ih (fun y hy => h y (List.mem_cons_of_mem x hy))]

/-- fold rule: two loops over the same domain, from the same initial value, whose steps agree on every
    (accumulator satisfying the invariant, element) compute the same value; the invariant is preserved. -/
theorem fold_congr {α σ : Type} (inv : σ → Prop) (f g : σ → α → σ) (xs : List α) (s : σ)
    (h0 : inv s)
    (hstep : ∀ a x, inv a → x ∈ xs → f a x = g a x)
    (hinv : ∀ a x, inv a → x ∈ xs → inv (f a x)) :
    xs.foldl f s = xs.foldl g s ∧ inv (xs.foldl f s) := by
  induction xs generalizing s with
  | nil => exact ⟨rfl, h0⟩
  | cons x xs ih =>
    simp only [List.foldl_cons]
    have hx := hstep s x h0 (List.mem_cons_self)
    have hi := hinv s x h0 (List.mem_cons_self)
    have := ih (f s x) hi
      (fun a y ha hy => hstep a y ha (List.mem_cons_of_mem x hy))
      (fun a y ha hy => hinv a y ha (List.mem_cons_of_mem x hy))
    rw [← hx]
    exact this

/-- a filter that keeps elements of its domain keeps every element predicate of the domain
    (element invariants of filtered collections and of fold accumulators). -/
theorem filter_keeps {α : Type} (p : α → Prop) (q : α → Bool) (xs : List α)
    (h : ∀ x, x ∈ xs → p x) : ∀ x, x ∈ xs.filter q → p x := by
  intro x hx
  exact h x (List.mem_filter.mp hx).1

theorem append_keeps {α : Type} (p : α → Prop) (xs ys : List α)
    (hx : ∀ x, x ∈ xs → p x) (hy : ∀ x, x ∈ ys → p x) : ∀ x, x ∈ xs ++ ys → p x := by
  intro x h
  cases List.mem_append.mp h with
  | inl h => exact hx x h
  | inr h => exact hy x h

/-- an accumulator that is only appended to is the initial value followed by the collected items
    (the fold rule hands such loops to the foreach abstraction). -/
theorem foldl_append {α β : Type} (g : α → List β) (xs : List α) (init : List β) :
    xs.foldl (fun acc x => acc ++ g x) init = init ++ xs.flatMap g := by
  induction xs generalizing init with
  | nil => simp
  | cons x xs ih => simp [List.foldl_cons, ih, List.flatMap_cons, List.append_assoc]

/-! ### C11: find-all of a compound query is the list of values of its find-iter

`specs/compound.py` states the compound semantics twice, over values (`compound_values`) and over
nodes (`compound_nodes`).  Each real entry point is proved equal to its own statement; this lemma
links the two statements, given that an operand's find-all is the values of its find-iter
(`JSONPath.findall==values(finditer)`, proved on the code). -/

section Compound
variable {N V : Type} (obj : N → V) (eqv : V → V → Bool)

def mem (v : V) (vs : List V) : Bool := vs.any (fun w => eqv v w)

/-- one operand applied to the nodes found so far: `true` is union, `false` intersection -/
def stepN (acc : List N) (o : Bool × List N) : List N :=
  if o.1 then acc ++ o.2 else acc.filter (fun m => mem eqv (obj m) (o.2.map obj))

def stepV (acc : List V) (o : Bool × List V) : List V :=
  if o.1 then acc ++ o.2 else acc.filter (fun v => mem eqv v o.2)

theorem map_filter_obj (p : V → Bool) (ms : List N) :
    (ms.filter (fun m => p (obj m))).map obj = (ms.map obj).filter p := by
  induction ms with
  | nil => rfl
  | cons m ms ih =>
    simp only [List.filter_cons, List.map_cons]
    cases h : p (obj m) <;> simp [ih]

theorem values_of_compound (ops : List (Bool × List N)) (init : List N) :
    (ops.foldl (stepN obj eqv) init).map obj
      = (ops.map (fun o => (o.1, o.2.map obj))).foldl (stepV eqv) (init.map obj) := by
  induction ops generalizing init with
  | nil => rfl
  | cons o ops ih =>
    simp only [List.foldl_cons, List.map_cons]
    rw [ih]
    congr 1
    unfold stepN stepV
    cases o.1 with
    | true => simp
    | false =>
      simp only [Bool.false_eq_true, if_false]
      exact map_filter_obj obj (fun v => mem eqv v (o.2.map obj)) init

end Compound
end Pyvc

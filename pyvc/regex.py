"""Python `re` pattern text -> z3 regular expression (language only, no groups).

Supported: literals, classes and ranges, negated classes, `.`, categories \\d \\s \\w (ASCII
fragment + a representative block of non-ASCII digits for \\d, as `int()` and `\\d` accept them),
greedy/lazy repetition, alternation, (non-)capturing groups, anchors at the ends.
Anything else raises NotRegular: the caller keeps the match predicate uninterpreted."""
from __future__ import annotations

import re

try:  # Python >= 3.11
    import re._constants as sre_constants
    import re._parser as sre_parse
except ImportError:  # pragma: no cover
    import sre_constants
    import sre_parse

import z3


class NotRegular(Exception):
    pass


MAXCH = 0x2FFFF


def _ch(c):
    return z3.Re(z3.StringVal(chr(c))) if c < 128 else z3.Range(chr(c), chr(c))


def _rng(a, b):
    return z3.Range(chr(a), chr(b))


ANYCHAR = z3.AllChar(z3.ReSort(z3.StringSort()))
DIGIT_ASCII = z3.Range("0", "9")
# Unicode Nd: ASCII + two representative non-ASCII blocks (Arabic-Indic, fullwidth)
DIGIT_UNI = z3.Union(DIGIT_ASCII, z3.Range("٠", "٩"), z3.Range("０", "９"))
SPACE = z3.Union(*[z3.Re(z3.StringVal(c)) for c in " \t\n\r\x0b\x0c"])
WORD = z3.Union(z3.Range("a", "z"), z3.Range("A", "Z"), DIGIT_ASCII, z3.Re(z3.StringVal("_")))


def _category(cat, ascii_only):
    C = sre_constants
    if cat == C.CATEGORY_DIGIT:
        return DIGIT_ASCII if ascii_only else DIGIT_UNI
    if cat == C.CATEGORY_SPACE:
        return SPACE
    if cat == C.CATEGORY_WORD:
        return WORD
    if cat == C.CATEGORY_NOT_DIGIT:
        return z3.Diff(ANYCHAR, DIGIT_ASCII if ascii_only else DIGIT_UNI)
    if cat == C.CATEGORY_NOT_SPACE:
        return z3.Diff(ANYCHAR, SPACE)
    if cat == C.CATEGORY_NOT_WORD:
        return z3.Diff(ANYCHAR, WORD)
    raise NotRegular(f"category {cat}")


def _set(items, ascii_only, dotall=True):
    C = sre_constants
    negate = False
    parts = []
    for op, av in items:
        if op == C.NEGATE:
            negate = True
        elif op == C.LITERAL:
            parts.append(_ch(av))
        elif op == C.RANGE:
            parts.append(_rng(av[0], av[1]))
        elif op == C.CATEGORY:
            parts.append(_category(av, ascii_only))
        else:
            raise NotRegular(f"set item {op}")
    u = parts[0] if len(parts) == 1 else z3.Union(*parts)
    return z3.Diff(ANYCHAR, u) if negate else u


def _seq(nodes, flags):
    C = sre_constants
    ascii_only = bool(flags & re.ASCII)
    out = []
    nodes = list(nodes)
    for i, (op, av) in enumerate(nodes):
        if op == C.LITERAL:
            out.append(_ch(av))
        elif op == C.NOT_LITERAL:
            out.append(z3.Diff(ANYCHAR, _ch(av)))
        elif op == C.ANY:
            out.append(ANYCHAR if flags & re.DOTALL else z3.Diff(ANYCHAR, z3.Re(z3.StringVal("\n"))))
        elif op == C.IN:
            out.append(_set(av, ascii_only))
        elif op in (C.MAX_REPEAT, C.MIN_REPEAT):
            lo, hi, sub = av
            r = _seq(sub, flags)
            if hi == C.MAXREPEAT:
                if lo == 0:
                    out.append(z3.Star(r))
                elif lo == 1:
                    out.append(z3.Plus(r))
                else:
                    out.append(z3.Concat(*([r] * lo + [z3.Star(r)])))
            else:
                out.append(z3.Loop(r, lo, hi))
        elif op == C.BRANCH:
            out.append(z3.Union(*[_seq(b, flags) for b in av[1]]))
        elif op == C.SUBPATTERN:
            out.append(_seq(av[3], flags))
        elif op == C.AT:
            if av in (C.AT_BEGINNING, C.AT_BEGINNING_STRING) and i == 0:
                continue
            if av in (C.AT_END_STRING,) and i == len(nodes) - 1:
                continue
            raise NotRegular(f"anchor {av}")
        else:
            raise NotRegular(f"regex node {op}")
    if not out:
        return z3.Re(z3.StringVal(""))
    return out[0] if len(out) == 1 else z3.Concat(*out)


_CACHE = {}


def to_z3(pattern, flags=0):
    key = (pattern, flags)
    if key not in _CACHE:
        try:
            parsed = sre_parse.parse(pattern, flags)
            _CACHE[key] = _seq(parsed, flags | parsed.state.flags)
        except NotRegular as e:
            _CACHE[key] = e
        except re.error as e:
            _CACHE[key] = NotRegular(str(e))
    v = _CACHE[key]
    if isinstance(v, Exception):
        raise v
    return v

"""Plain-Python stand-ins used when solver models are concretised (no z3 import here, so
replay files run under /venv/bin/python)."""


class Undefined:
    def __repr__(self):
        return "UNDEFINED"


UNDEFINED_PY = Undefined()

"""Exploration of all paths of a function and comparison of two outcome sets (code vs spec,
sync vs async twin).  Produces obligations; each is discharged (unsat), refuted with a model
(sat) or left undecided (unknown / Unsupported)."""
from __future__ import annotations

import time
import traceback

import z3

from . import sorts as S
from .interp import (
    ExcVal,
    GenVal,
    Infeasible,
    Interp,
    IterSpec,
    LazyGen,
    Oracle,
    PyRaise,
    SymObj,
    Unsupported,
)
from .sorts import Py

OBLIGATION_TIMEOUT_MS = 10000


class Outcome:
    def __init__(self, kind, value, pc, trace, assumed, interp):
        self.kind = kind  # 'return' | 'raise'
        self.value = value
        self.pc = pc
        self.trace = trace
        self.assumed = assumed
        self.interp = interp

    def __repr__(self):
        return f"<{self.kind} {self.value!r} |pc|={len(self.pc)} |trace|={len(self.trace)}>"


def explore(run, ns="c", contracts=None, max_paths=3000):
    """run(interp) -> value; explores every decision sequence.  Returns (outcomes, stats)."""
    outs = []
    work = [[]]
    stats = {"paths": 0, "infeasible": 0, "solver_calls": 0}
    while work:
        prefix = work.pop()
        stats["paths"] += 1
        if stats["paths"] > max_paths:
            raise Unsupported("path explosion")
        it = Interp(ns=ns, oracle=Oracle(prefix), contracts=contracts)
        try:
            try:
                v = run(it)
                kind = "return"
                trace = it.trace
                if isinstance(v, LazyGen):
                    from . import lib

                    v = lib.run_genexp(it, v)
                if isinstance(v, GenVal):
                    trace = it.trace + v.items
                    if v.pending_exc is not None:
                        kind, v = "raise", v.pending_exc
                    else:
                        v = None
            except PyRaise as e:
                kind, v, trace = "raise", e.exc, it.trace
            outs.append(Outcome(kind, v, list(it.pc), trace, list(it.assumed), it))
        except Infeasible:
            stats["infeasible"] += 1
        finally:
            work.extend(it.oracle.alts)
            stats["solver_calls"] += it.solver_calls
    return outs, stats


# --------------------------------------------------------------------------- obligations


class Obligation:
    def __init__(self, name, premises, goal, kind="eq", note=""):
        self.name = name
        self.premises = premises  # list of z3 Bool
        self.goal = goal  # z3 Bool that must be valid under the premises (None = 'False': premises must be unsat)
        self.kind = kind
        self.note = note
        self.status = None  # 'discharged' | 'refuted' | 'unknown'
        self.model = None
        self.time = 0.0

    def check(self, timeout_ms=OBLIGATION_TIMEOUT_MS):
        t = time.time()
        r = z3.unknown
        # `unknown` is retried with another seed and a larger budget: verdicts must not flip when
        # the machine is busy (slow queries are the unstable ones)
        if self.goal is not None and z3.is_true(z3.simplify(self.goal, pull_cheap_ite=True, hoist_ite=True)):
            self.status = "discharged"
            self.time = time.time() - t
            return self.status
        # the sequence solver is unstable on identical input (the same query takes ms or minutes):
        # short attempts with different seeds first, then growing budgets
        for attempt, (seed, mult) in enumerate(((0, 0.3), (1, 0.3), (2, 0.5), (3, 1), (7, 2), (13, 4))):
            s = z3.Solver()
            s.set("timeout", int(timeout_ms * mult))
            if attempt:
                s.set("random_seed", seed)
                s.set("smt.random_seed", seed)
            for p in self.premises:
                s.add(p)
            if self.goal is not None:
                s.add(z3.Not(self.goal))
            r = s.check()
            if r != z3.unknown:
                break
        self.time = time.time() - t
        if r == z3.unsat:
            self.status = "discharged"
        elif r == z3.sat:
            self.status = "refuted"
            self.model = s.model()
        else:
            self.status = "unknown"
        return self.status

    def smt2(self):
        s = z3.Solver()
        for p in self.premises:
            s.add(p)
        if self.goal is not None:
            s.add(z3.Not(self.goal))
        return s.to_smt2()


class Comparison:
    """Collects the obligations of `A == B` for two outcome sets."""

    def __init__(self, name, premises=(), compare_effects=False, exc_by="class", ignore_return_value=False):
        self.name = name
        self.premises = list(premises)
        self.obligations = []
        self.compare_effects = compare_effects
        self.exc_by = exc_by
        self.ignore_return_value = ignore_return_value
        self.undecided = []

    def feasible(self, pcs):
        s = z3.Solver()
        s.set("timeout", OBLIGATION_TIMEOUT_MS)
        for p in self.premises + pcs:
            s.add(p)
        return s.check() != z3.unsat

    def fail(self, label, pcs, note):
        # an unconditional mismatch on a feasible path pair: premises must be unsat
        self.obligations.append(Obligation(f"{self.name}/{label}", self.premises + pcs, None, "shape", note))

    def eq(self, label, pcs, a, b, note=""):
        if isinstance(a, z3.ExprRef) and isinstance(b, z3.ExprRef):
            if a.sort() != b.sort():
                self.fail(label, pcs, f"sort mismatch {a.sort()} vs {b.sort()}")
                return
            if z3.eq(z3.simplify(a), z3.simplify(b)):
                self.obligations.append(Obligation(f"{self.name}/{label}", [], z3.BoolVal(True), "eq-syntactic", note))
                return
            self.obligations.append(Obligation(f"{self.name}/{label}", self.premises + pcs, a == b, "eq", note))
        else:
            raise Unsupported(f"eq of {type(a).__name__} / {type(b).__name__}")

    # ---- outcome sets

    @staticmethod
    def _atoms(pc):
        """{atom id: polarity} of the literal conjuncts of a path condition (syntactic)."""
        out = {}
        for c in pc:
            pol = True
            while z3.is_not(c):
                c, pol = c.arg(0), not pol
            out[c.get_id()] = pol if out.get(c.get_id(), pol) == pol else None
        return out

    def outcomes(self, label, outs_a, outs_b, pcs=()):
        pcs = list(pcs)
        atoms_b = [self._atoms(b["pc"] if isinstance(b, dict) else b.pc) for b in outs_b]
        for i, a in enumerate(outs_a):
            at_a = self._atoms(a["pc"] if isinstance(a, dict) else a.pc)
            for j, b in enumerate(outs_b):
                apc = a["pc"] if isinstance(a, dict) else a.pc
                bpc = b["pc"] if isinstance(b, dict) else b.pc
                # two paths that took opposite sides of the same (syntactically identical) branch
                # condition cannot be joined: no solver call needed
                at_b = atoms_b[j]
                if any(k in at_b and at_b[k] is not None and v is not None and at_b[k] != v for k, v in at_a.items()):
                    continue
                joint = pcs + list(apc) + list(bpc)
                if not self.feasible(joint):
                    continue
                self.pair(f"{label}p{i}x{j}", a, b, joint)

    def pair(self, label, a, b, joint):
        if isinstance(a, dict):  # loop alternatives
            ka, kb = a["exit"], b["exit"]
            ta, tb = a["trace"], b["trace"]
            if ka[0] != kb[0]:
                self.fail(label + "/exit", joint, f"loop body exits differ: {ka[0]} vs {kb[0]}")
                return
            if ka[0] == "raise":
                self.exc(label, joint, ka[1], kb[1])
            elif ka[0] == "return":
                self.value(label + "/ret", joint, ka[1], kb[1])
            self.traces(label, joint, ta, tb)
            return
        if a.kind != b.kind:
            self.fail(label + "/kind", joint, f"{a.kind} {a.value!r} vs {b.kind} {b.value!r}")
            return
        if a.kind == "raise":
            self.exc(label, joint, a.value, b.value)
        elif not self.ignore_return_value:
            self.value(label + "/ret", joint, a.value, b.value)
        self.traces(label, joint, a.trace, b.trace)

    def exc(self, label, joint, ea, eb):
        if self.exc_by == "class":
            if ea.cls is not eb.cls:
                self.fail(label + "/exc", joint, f"raises {ea.cls.__name__} vs {eb.cls.__name__}")
            else:
                self.obligations.append(Obligation(f"{self.name}/{label}/exc", [], z3.BoolVal(True), "exc-class", ea.cls.__name__))

    def value(self, label, joint, va, vb):
        if va is None and vb is None:
            return
        if isinstance(va, SymObj) and isinstance(vb, SymObj):
            if va.cls is not vb.cls:
                self.fail(label, joint, f"result class {va.cls.__name__} vs {vb.cls.__name__}")
                return
            for k in sorted(set(va.fields) | set(vb.fields)):
                if k not in va.fields or k not in vb.fields:
                    self.fail(label + "." + k, joint, "field missing")
                    continue
                self.value(label + "." + k, joint, va.fields[k], vb.fields[k])
            return
        if isinstance(va, (SymObj, ExcVal, IterSpec)) or isinstance(vb, (SymObj, ExcVal, IterSpec)):
            if isinstance(va, IterSpec) and isinstance(vb, IterSpec):
                self.keys(label, joint, va.key, vb.key)
                return
            ita = None
            raise Unsupported(f"compare {type(va).__name__} with {type(vb).__name__}")
        if va is None or vb is None:
            va = S.NONE if va is None else va
            vb = S.NONE if vb is None else vb
        self.eq(label, joint, _t(va), _t(vb))

    # ---- traces

    def chunks(self, trace):
        out = []
        cur = []
        for item in trace:
            k = item[0]
            if k == "yield":
                cur.append(z3.Unit(item[1]))
            elif k == "yieldfrom":
                cur.append(item[1])
            elif k == "loop":
                if cur:
                    out.append(("seq", z3.Concat(*cur) if len(cur) > 1 else cur[0]))
                    cur = []
                out.append(item)
            elif k in ("effect", "write", "mutate"):
                if self.compare_effects:
                    if cur:
                        out.append(("seq", z3.Concat(*cur) if len(cur) > 1 else cur[0]))
                        cur = []
                    out.append(item)
            else:
                raise Unsupported(f"trace item {k}")
        if cur:
            out.append(("seq", z3.Concat(*cur) if len(cur) > 1 else cur[0]))
        return out

    def traces(self, label, joint, ta, tb):
        ca, cb = self.chunks(ta), self.chunks(tb)
        # drop loops that can produce nothing at all? no: compare shapes strictly, but allow an
        # empty seq chunk to be skipped
        if len(ca) != len(cb) and (not ca or not cb):
            # one side yields nothing at all: every chunk of the other side must be empty
            other = ca or cb
            for n, c in enumerate(other):
                if c[0] == "seq":
                    self.eq(label + f"/t{n}/yields", joint, c[1], S.EmptySeq)
                elif c[0] == "loop":
                    _, sp, ix, alts = c
                    for k, alt in enumerate(alts):
                        if self.chunks(alt["trace"]) or alt["exit"][0] != "next":
                            # this body alternative must be unreachable for every index of the domain
                            self.obligations.append(
                                Obligation(
                                    f"{self.name}/{label}/t{n}/must-be-empty{k}",
                                    self.premises + joint + [sp.bound(ix)] + list(alt["pc"]),
                                    None,
                                    "shape",
                                    "one side yields inside a loop, the other yields nothing",
                                )
                            )
                else:
                    self.fail(label + "/shape", joint, f"trace shapes differ: {[c[0] for c in ca]} vs {[c[0] for c in cb]}")
            return
        if len(ca) != len(cb):
            # try: a side with only seq chunks vs empty
            if not ca and all(c[0] == "seq" for c in cb):
                self.eq(label + "/yields", joint, S.EmptySeq, _cat([c[1] for c in cb]))
                return
            if not cb and all(c[0] == "seq" for c in ca):
                self.eq(label + "/yields", joint, _cat([c[1] for c in ca]), S.EmptySeq)
                return
            self.fail(label + "/shape", joint, f"trace shapes differ: {[c[0] for c in ca]} vs {[c[0] for c in cb]}")
            return
        for n, (x, y) in enumerate(zip(ca, cb)):
            if x[0] != y[0]:
                self.fail(label + f"/t{n}", joint, f"trace item kinds differ: {x[0]} vs {y[0]}")
                return
            if x[0] == "seq":
                self.eq(label + f"/t{n}/yields", joint, x[1], y[1])
            elif x[0] == "loop":
                _, sa, ia, alts_a = x
                _, sb, ib, alts_b = y
                if not z3.eq(ia, ib):
                    raise Unsupported("loop nesting differs between the two sides")
                self.keys(label + f"/t{n}/domain", joint, sa.key, sb.key)
                # both bodies under the same index, inside the (common) domain
                dom = [sa.bound(ia)]
                self.outcomes(label + f"/t{n}/body", alts_a, alts_b, joint + dom)
                # body alternatives must be exhaustive on both sides by construction (path enumeration)
            else:
                if x[1:] != y[1:]:
                    self.eq_effect(label + f"/t{n}", joint, x, y)

    def eq_effect(self, label, joint, x, y):
        if len(x) != len(y):
            self.fail(label, joint, f"effects differ: {x[:2]} vs {y[:2]}")
            return
        for p, q in zip(x[1:], y[1:]):
            if isinstance(p, z3.ExprRef) and isinstance(q, z3.ExprRef):
                self.eq(label, joint, p, q)
            elif p != q:
                self.fail(label, joint, f"effects differ: {x[:3]} vs {y[:3]}")
                return

    def keys(self, label, joint, ka, kb):
        if len(ka) != len(kb) or ka[0] != kb[0]:
            # a plain sequence domain vs an `items` view etc. are different shapes
            self.fail(label, joint, f"loop domains differ: {ka[0]} vs {kb[0]}")
            return
        for n, (x, y) in enumerate(zip(ka[1:], kb[1:])):
            if isinstance(x, tuple) and isinstance(y, tuple):
                self.keys(label + f".{n}", joint, x, y)
            elif isinstance(x, z3.ExprRef) and isinstance(y, z3.ExprRef):
                self.eq(label + f".{n}", joint, x, y)
            elif x != y:
                self.fail(label + f".{n}", joint, f"loop domains differ: {x} vs {y}")

    # ---- run

    def discharge(self, timeout_ms=OBLIGATION_TIMEOUT_MS):
        for ob in self.obligations:
            if ob.status is None:
                ob.check(timeout_ms)
        return self.obligations


def _cat(xs):
    return z3.Concat(*xs) if len(xs) > 1 else xs[0]


def _t(v):
    if S.is_term(v):
        return v
    if isinstance(v, bool):
        return S.mk_bool(v)
    if isinstance(v, int):
        return S.mk_int(v)
    if isinstance(v, str):
        return S.mk_str(v)
    if v is None:
        return S.NONE
    raise Unsupported(f"value {type(v).__name__} in comparison")

"""Contract registry, per-contract verification run, counter-model replay."""
from __future__ import annotations

import hashlib
import importlib
import json
import os
import sys
import time
import traceback

import z3

from . import sorts as S
from .interp import Unsupported, func_source_segment
from .sorts import Py
from .verify import Comparison, explore

REGISTRY = {}
CALL_CONTRACTS = {}  # "module:qualname" -> callable(it, fv, args, kwargs): modular summaries used at call sites


class ContractDef:
    def __init__(self, name, props, functions, fn, replay=None, doc="", tier="quick"):
        self.tier = tier  # "quick": every run; "thorough": only in the thorough tier (slow solver work)
        self.name = name
        self.props = tuple(props)
        self.functions = tuple(functions)
        self.fn = fn
        self.replay = replay
        self.doc = doc or (fn.__doc__ or "").strip()


def contract(name, props, functions, replay=None, tier="quick"):
    def deco(fn):
        REGISTRY[name] = ContractDef(name, props, functions, fn, replay, tier=tier)
        return fn

    return deco


def call_contract(key):
    def deco(fn):
        CALL_CONTRACTS[key] = fn
        return fn

    return deco


class Ctx:
    """What a contract function sees: named symbolic inputs, premises, comparisons."""

    def __init__(self, cdef, carveouts=()):
        self.cdef = cdef
        self.inputs = {}
        self.premises = []
        self.comparisons = []
        self.stats = {"paths": 0, "solver_calls": 0, "explore_s": 0.0}
        self.assumed = set()
        self.carveout_fns = list(carveouts)
        self.extra_obligations = []
        self.flags = {}
        for f in self.carveout_fns:  # carve-outs that work by switching a library assumption
            if getattr(f, "flag", None):
                self.flags[f.flag] = True

    # ---- symbolic inputs
    def int(self, name):
        c = z3.Int("v_" + name)
        self.inputs[name] = Py.int(c)
        return c

    def str(self, name):
        c = z3.String("v_" + name)
        self.inputs[name] = Py.str(c)
        return c

    def bool(self, name):
        c = z3.Bool("v_" + name)
        self.inputs[name] = Py.bool(c)
        return c

    def val(self, name):
        c = z3.Const("v_" + name, Py)
        self.inputs[name] = c
        return c

    def seq(self, name):
        c = z3.Const("v_" + name, S.SeqPy)
        self.inputs[name] = Py.list(c)
        return c

    def json(self, name):
        c = self.val(name)
        self.premises.append(S.json_value(c))
        return c

    def require(self, *facts):
        self.premises.extend(facts)

    def all_premises(self):
        out = list(self.premises)
        for f in self.carveout_fns:
            if getattr(f, "flag", None):
                continue
            out.append(z3.Not(f(self)))
        return out

    # ---- exploration / comparison
    def explore(self, run, ns):
        t = time.time()
        prem = self.all_premises()

        def run2(it):
            it.flags = self.flags
            for p in prem:
                it.assume(p)
            return run(it)

        outs, st = explore(run2, ns, CALL_CONTRACTS)
        self.stats["paths"] += st["paths"]
        self.stats["solver_calls"] += st["solver_calls"]
        self.stats["explore_s"] += time.time() - t
        n = len(prem)
        from .verify import Obligation

        for k, o in enumerate(outs):
            o.pc = o.pc[n:]
            self.assumed.update(o.assumed)
            for label, pc, goal in o.interp.side_obligations:
                self.extra_obligations.append(Obligation(f"{self.cdef.name}/{ns}{k}/pre:{label}", list(pc), goal, "pre", "precondition of a callee / assertion"))
        return outs

    def equiv(self, label, run_a, run_b, post=None, **kw):
        """Every feasible (path of a, path of b) pair has the same outcome.  `post`, when given, is
        a postcondition evaluated on the outcomes of `a` as well (same shape as check_outcomes)."""
        from .verify import Obligation

        a = self.explore(run_a, "a")
        b = self.explore(run_b, "b")
        cmp = Comparison(label, self.all_premises(), **kw)
        if not a or not b:
            raise Unsupported(f"{label}: no feasible path (vacuous precondition?)")
        cmp.outcomes("", a, b)
        if post is not None:
            for i, o in enumerate(a):
                for sub, prem, goal, note in post(o):
                    cmp.obligations.append(Obligation(f"{label}/p{i}/{sub}", cmp.premises + list(o.pc) + list(prem), goal, "post", note))
        self.comparisons.append(cmp)
        return cmp

    def check_outcomes(self, label, run, pred, ns="a"):
        """Postcondition over every outcome: pred(outcome) -> list of (sublabel, extra premises, goal)."""
        from .verify import Obligation

        outs = self.explore(run, ns)
        if not outs:
            raise Unsupported(f"{label}: no feasible path (vacuous precondition?)")
        cmp = Comparison(label, self.all_premises())
        for i, o in enumerate(outs):
            for sub, prem, goal, note in pred(o):
                cmp.obligations.append(Obligation(f"{label}/p{i}/{sub}", cmp.premises + list(o.pc) + list(prem), goal, "post", note))
        self.comparisons.append(cmp)
        return cmp


def source_hashes(functions):
    out = []
    for key in functions:
        modname, qn = key.split(":")
        mod = importlib.import_module(modname)
        try:
            seg = func_source_segment(mod, qn)
            out.append({"function": key, "sha256": hashlib.sha256(seg.encode()).hexdigest()[:16], "lines": seg.count("\n") + 1})
        except KeyError:
            out.append({"function": key, "sha256": None, "lines": 0, "missing": True})
    return out


def _jsonable(v):
    if isinstance(v, (str, int, float, bool)) or v is None:
        return v
    if isinstance(v, S.Undefined):
        return {"<undefined>": True}
    if isinstance(v, dict):
        return {str(k): _jsonable(x) for k, x in v.items()}
    if isinstance(v, (list, tuple)):
        return [_jsonable(x) for x in v]
    return repr(v)


def _abstraction_symbols(t, acc=None, seen=None):
    acc = set() if acc is None else acc
    seen = set() if seen is None else seen
    stack = [t]
    while stack:
        e = stack.pop()
        if e.get_id() in seen or not z3.is_app(e):
            continue
        seen.add(e.get_id())
        n = e.decl().name()
        if n.startswith(("loopfold!", "collect!")):
            acc.add(n)
        stack.extend(e.arg(i) for i in range(e.num_args()))
    return acc


def _abstraction_only(ob):
    """True when the refuted goal is an equality whose two sides name different rule-introduced
    abstractions (`loopfold!..` of a loop, `collect!..` of a comprehension).  The solver is then free to
    interpret them differently: the counter-model shows that the two loops were not RECOGNISED as the same
    computation, not that they differ - a proof failure (undecided), never a violation by itself."""
    g = ob.goal
    if g is None or not z3.is_app(g):
        return False
    if z3.is_eq(g) and g.num_args() == 2:
        a, b = _abstraction_symbols(g.arg(0)), _abstraction_symbols(g.arg(1))
        if a != b:
            return True
        # the two sides differ only in how they NUMBER the heap objects they allocated (one side allocated
        # something earlier): not a difference in behaviour either
        x, y = _erase_refs(g.arg(0)), _erase_refs(g.arg(1))
        return z3.eq(z3.simplify(x), z3.simplify(y)) and not z3.eq(z3.simplify(g.arg(0)), z3.simplify(g.arg(1)))
    return False


# contracts whose two sides are compositions of UNINTERPRETED string library functions (their algebra is
# proved in lemmas/PointerText.lean, not known to the solver): a refutation that neither replays nor is
# confirmed by the witness search separates two spellings of the same composition at best - a proof
# failure (undecided), never a violation by itself
LIBRARY_ABSTRACTION_CONTRACTS = {"JSONPointer._encode==pointer_text", "JSONPointer._parse==parse_text", "JSONPointer.__truediv__==join_tokens"}
_STRING_LIB = ("str_replace_all", "str_split", "str_join", "str_lstrip")


def _library_abstraction_only(contract_name, ob):
    if contract_name not in LIBRARY_ABSTRACTION_CONTRACTS or ob.goal is None:
        return False
    stack, seen = [ob.goal], set()
    while stack:
        e = stack.pop()
        if e.get_id() in seen or not z3.is_app(e):
            continue
        seen.add(e.get_id())
        if e.decl().name() in _STRING_LIB or e.decl().name().startswith("collect!"):
            return True
        stack.extend(e.arg(i) for i in range(e.num_args()))
    return False


def _erase_refs(t):
    """t with every heap reference `obj(<number>)` replaced by obj(0)."""
    refs = {}
    stack, seen = [t], set()
    while stack:
        e = stack.pop()
        if e.get_id() in seen or not z3.is_app(e):
            continue
        seen.add(e.get_id())
        if e.decl().name() == "obj" and e.num_args() == 1 and z3.is_int_value(e.arg(0)):
            refs[e.get_id()] = e
            continue
        stack.extend(e.arg(i) for i in range(e.num_args()))
    if not refs:
        return t
    return z3.substitute(t, *[(e, Py.obj(z3.IntVal(0))) for e in refs.values()])


def run_contract(name, carveouts=(), timeout_ms=10000):
    """Verify one contract on the current tree.  Returns a plain (picklable) dict."""
    cdef = REGISTRY[name]
    t0 = time.time()
    res = {
        "contract": name,
        "props": list(cdef.props),
        "functions": [],
        "status": None,
        "obligations": 0,
        "discharged": 0,
        "refuted": [],
        "unknown": [],
        "unsupported": None,
        "paths": 0,
        "solver_s": 0.0,
        "wall_s": 0.0,
        "assumed": [],
        "samples": [],
    }
    try:
        res["functions"] = source_hashes(cdef.functions)
        from . import interp as _interp

        _interp.FOLD_REGISTRY.clear()
        from . import lib as _lib

        _lib.COLLECT_REGISTRY.clear()
        ctx = Ctx(cdef, carveouts)
        cdef.fn(ctx)
        obs = []
        for cmp in ctx.comparisons:
            cmp.discharge(timeout_ms)
            obs.extend(cmp.obligations)
        for ob in ctx.extra_obligations:
            ob.check(timeout_ms)
            obs.append(ob)
        res["paths"] = ctx.stats["paths"]
        res["assumed"] = sorted(ctx.assumed)
        res["obligations"] = len(obs)
        for ob in obs:
            res["solver_s"] += ob.time
            if ob.status == "discharged":
                res["discharged"] += 1
            elif ob.status == "refuted":
                inputs = {}
                for k, term in ctx.inputs.items():
                    try:
                        inputs[k] = S.to_python(ob.model, term)
                    except Exception as e:  # noqa: BLE001
                        inputs[k] = f"<unconcretisable: {e}>"
                entry = {"obligation": ob.name, "kind": ob.kind, "note": ob.note, "inputs": inputs, "replayed": None, "abstraction_only": _abstraction_only(ob) or _library_abstraction_only(name, ob)}
                entry["replay_fn"] = cdef.replay
                if cdef.replay is not None:
                    try:
                        from contracts import replay as _R

                        entry["replayed"] = _R.run(cdef.replay[0], cdef.replay[1], _jsonable(inputs))
                        if not entry["replayed"] and len(cdef.replay) > 2:
                            # witness search (DESIGN 2.5, job 3): the counter-model lives in an
                            # abstraction; try the contract's small candidate universe on the real code
                            for cand in getattr(_R, cdef.replay[2])():
                                hit = _R.run(cdef.replay[0], cdef.replay[1], cand)
                                if hit:
                                    entry["replayed"] = hit
                                    inputs = cand
                                    entry["witness_search"] = True
                                    break
                    except Exception as e:  # noqa: BLE001
                        entry["replayed"] = None
                        entry["replay_error"] = f"{type(e).__name__}: {e}"
                entry["inputs"] = _jsonable(inputs)
                res["refuted"].append(entry)
            else:
                res["unknown"].append({"obligation": ob.name, "kind": ob.kind})
        res["samples"] = [{"obligation": ob.name, "kind": ob.kind, "status": ob.status, "note": ob.note} for ob in obs[:3]]
        if not obs:
            res["status"] = "vacuous"
        elif res["refuted"]:
            res["status"] = "refuted"
        elif res["unknown"]:
            res["status"] = "undecided"
        else:
            res["status"] = "proved"
    except Unsupported as e:
        res["status"] = "unsupported"
        res["unsupported"] = str(e)
    except Exception as e:  # noqa: BLE001
        res["status"] = "error"
        res["unsupported"] = f"{type(e).__name__}: {e}\n" + traceback.format_exc()[-1500:]
    res["wall_s"] = round(time.time() - t0, 3)
    res["solver_s"] = round(res["solver_s"], 3)
    return res


def load_all_contracts():
    import contracts  # noqa: F401

    contracts.load()

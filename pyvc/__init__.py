"""pyvc - a small verification-condition generator for a subset of Python.

It re-reads the real source of the functions under contract with `ast` on every
run, executes them symbolically over a universal z3 value sort and compares the
outcome with sidecar spec functions (see /verif/DESIGN.md, section 2).
"""

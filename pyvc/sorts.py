"""The universal value sort `Py` and the library semantics of Python values over it."""
from __future__ import annotations

import fractions

import z3

_Py = z3.Datatype("Py")
_PyRef = z3.DatatypeSort("Py")
_SeqPy = z3.SeqSort(_PyRef)
_Py.declare("none")
_Py.declare("bool", ("b", z3.BoolSort()))
_Py.declare("int", ("i", z3.IntSort()))
_Py.declare("float", ("r", z3.RealSort()))
_Py.declare("str", ("s", z3.StringSort()))
_Py.declare("list", ("items", _SeqPy))
_Py.declare("tuple", ("titems", _SeqPy))
_Py.declare("dict", ("keys", _SeqPy), ("vals", _SeqPy))
_Py.declare("undef")  # jsonpath.filter.UNDEFINED ("Nothing")
_Py.declare("obj", ("ref", z3.IntSort()))  # heap object / opaque singleton
_Py.declare("nodelist", ("nitems", _SeqPy))  # jsonpath.match.NodeList of match terms
_Py.declare("pattern", ("psrc", z3.StringSort()), ("pflags", z3.IntSort()))
_Py.declare(
    "match",
    ("mobj", _PyRef),
    ("mparts", _PyRef),
    ("mpath", z3.StringSort()),
    ("mroot", _PyRef),
    ("mfc", _PyRef),
    ("mparent", _PyRef),
)
Py = _Py.create()
SeqPy = z3.SeqSort(Py)
EmptySeq = z3.Empty(SeqPy)

NONE = Py.none
UNDEF = Py.undef
TRUE = Py.bool(z3.BoolVal(True))
FALSE = Py.bool(z3.BoolVal(False))


def mk_int(n):
    return Py.int(z3.IntVal(n) if isinstance(n, int) else n)


def mk_bool(b):
    return Py.bool(z3.BoolVal(b) if isinstance(b, bool) else b)


def mk_str(s):
    return Py.str(z3.StringVal(s) if isinstance(s, str) else s)


def mk_float(x):
    if isinstance(x, (int, float)):
        fr = fractions.Fraction(x)
        return Py.float(z3.RealVal(f"{fr.numerator}/{fr.denominator}"))
    return Py.float(x)


def mk_seq(elems):
    elems = list(elems)
    if not elems:
        return EmptySeq
    if len(elems) == 1:
        return z3.Unit(elems[0])
    return z3.Concat(*[z3.Unit(e) for e in elems])


def mk_list(elems):
    return Py.list(mk_seq(elems))


def mk_tuple(elems):
    return Py.tuple(mk_seq(elems))


def is_term(v):
    return isinstance(v, z3.ExprRef) and v.sort() == Py


def simp(t):
    return z3.simplify(t)


# ---------------------------------------------------------------- macros

def _macro(fn):
    """Build the (large) defining expression once over placeholder constants and instantiate it
    by C-level substitution: the Python-side construction of these terms dominated run time."""
    import functools
    import inspect

    n = len(inspect.signature(fn).parameters)
    cache = {}

    @functools.wraps(fn)
    def wrapper(*args):
        if len(args) != n or not all(isinstance(a, z3.ExprRef) and a.sort() == Py for a in args):
            return fn(*args)
        if "t" not in cache:
            ph = [z3.Const(f"macro!{fn.__name__}!{i}", Py) for i in range(n)]
            cache["ph"] = ph
            cache["t"] = fn(*ph)
        r = z3.substitute(cache["t"], *zip(cache["ph"], args))
        if any(a.decl().kind() == z3.Z3_OP_DT_CONSTRUCTOR for a in args):
            r = z3.simplify(r)  # constructor tests on a known constructor fold away
        return r

    return wrapper


# ---------------------------------------------------------------- kinds

@_macro
def is_number(t):
    """int, bool or float - what Python's numeric tower compares by value."""
    return z3.Or(Py.is_int(t), Py.is_bool(t), Py.is_float(t))


@_macro
def numval(t):
    return z3.If(
        Py.is_int(t),
        z3.ToReal(Py.i(t)),
        z3.If(Py.is_bool(t), z3.If(Py.b(t), z3.RealVal(1), z3.RealVal(0)), Py.r(t)),
    )


@_macro
def intval(t):
    """Value of an int-or-bool term as an Int."""
    return z3.If(Py.is_bool(t), z3.If(Py.b(t), z3.IntVal(1), z3.IntVal(0)), Py.i(t))


def is_intlike(t):
    return z3.Or(Py.is_int(t), Py.is_bool(t))


@_macro
def is_sequence(t):
    """collections.abc.Sequence registration: list, tuple, str (NodeList is a list)."""
    return z3.Or(Py.is_list(t), Py.is_tuple(t), Py.is_str(t), Py.is_nodelist(t))


@_macro
def seq_items(t):
    """Item sequence of a list / tuple / nodelist term."""
    return z3.If(
        Py.is_list(t), Py.items(t), z3.If(Py.is_tuple(t), Py.titems(t), Py.nitems(t))
    )


@_macro
def py_len(t):
    return z3.If(
        Py.is_str(t),
        z3.Length(Py.s(t)),
        z3.If(Py.is_dict(t), z3.Length(Py.keys(t)), z3.Length(seq_items(t))),
    )


@_macro
def has_len(t):
    return z3.Or(is_sequence(t), Py.is_dict(t))


@_macro
def truthy(t):
    """Python bool(t)."""
    return z3.If(
        Py.is_none(t),
        z3.BoolVal(False),
        z3.If(
            Py.is_bool(t),
            Py.b(t),
            z3.If(
                Py.is_int(t),
                Py.i(t) != 0,
                z3.If(
                    Py.is_float(t),
                    Py.r(t) != 0,
                    z3.If(has_len(t), py_len(t) > 0, z3.BoolVal(True)),
                ),
            ),
        ),
    )


# ---------------------------------------------------------------- equality

# Deep Python `==` on containers is kept uninterpreted, with unfolding facts
# instantiated by `eq_facts` for the terms that occur (DESIGN 2.4).
seq_eq_py = z3.Function("seq_eq_py", SeqPy, SeqPy, z3.BoolSort())
dict_eq_py = z3.Function("dict_eq_py", Py, Py, z3.BoolSort())
seq_eq_rfc = z3.Function("seq_eq_rfc", SeqPy, SeqPy, z3.BoolSort())
dict_eq_rfc = z3.Function("dict_eq_rfc", Py, Py, z3.BoolSort())


def _listlike(t):
    return z3.Or(Py.is_list(t), Py.is_nodelist(t))


@_macro
def py_eq(a, b):
    """Python `a == b` for JSON-like values (numbers by value, bool is an int)."""
    return z3.If(
        z3.And(is_number(a), is_number(b)),
        numval(a) == numval(b),
        z3.If(
            z3.And(Py.is_str(a), Py.is_str(b)),
            Py.s(a) == Py.s(b),
            z3.If(
                z3.And(Py.is_list(a), Py.is_list(b)),
                z3.Or(a == b, seq_eq_py(Py.items(a), Py.items(b))),
                z3.If(
                    z3.And(Py.is_tuple(a), Py.is_tuple(b)),
                    z3.Or(a == b, seq_eq_py(Py.titems(a), Py.titems(b))),
                    z3.If(
                        z3.And(Py.is_dict(a), Py.is_dict(b)),
                        z3.Or(a == b, dict_eq_py(a, b)),
                        z3.If(
                            z3.And(Py.is_nodelist(a), Py.is_nodelist(b)),
                            # fresh match objects are never identical: equal iff both empty
                            z3.And(
                                z3.Length(Py.nitems(a)) == 0,
                                z3.Length(Py.nitems(b)) == 0,
                            ),
                            z3.If(
                                z3.And(_listlike(a), _listlike(b)),
                                # list == NodeList: element-wise, matches never equal values
                                z3.And(py_len(a) == 0, py_len(b) == 0),
                                z3.If(
                                    z3.Or(Py.is_undef(a), Py.is_undef(b)),
                                    # _Undefined.__eq__ (reflected too)
                                    z3.Or(
                                        z3.And(Py.is_undef(a), Py.is_undef(b)),
                                        z3.And(
                                            Py.is_nodelist(a),
                                            z3.Length(Py.nitems(a)) == 0,
                                        ),
                                        z3.And(
                                            Py.is_nodelist(b),
                                            z3.Length(Py.nitems(b)) == 0,
                                        ),
                                    ),
                                    a == b,  # none, obj identity, pattern, match
                                ),
                            ),
                        ),
                    ),
                ),
            ),
        ),
    )


@_macro
def rfc_eq(a, b):
    """RFC 9535 2.3.5.2.2 / RFC 6902 4.6 equality of JSON values (bool is not a number)."""
    num = lambda t: z3.Or(Py.is_int(t), Py.is_float(t))  # noqa: E731
    return z3.If(
        z3.And(num(a), num(b)),
        numval(a) == numval(b),
        z3.If(
            z3.And(Py.is_str(a), Py.is_str(b)),
            Py.s(a) == Py.s(b),
            z3.If(
                z3.And(Py.is_list(a), Py.is_list(b)),
                z3.Or(a == b, seq_eq_rfc(Py.items(a), Py.items(b))),
                z3.If(
                    z3.And(Py.is_dict(a), Py.is_dict(b)),
                    z3.Or(a == b, dict_eq_rfc(a, b)),
                    a == b,  # null, true/false, Nothing
                ),
            ),
        ),
    )


def eq_unfold_facts(x, y):
    """One-step unfolding of deep equality for sequences of length <= 1.

    Sound facts about Python / RFC equality, used so that shallow counter-models
    (`[1]` vs `[True]`) can be found and replayed.
    """
    lx, ly = z3.Length(x), z3.Length(y)
    return [
        z3.Implies(seq_eq_py(x, y), lx == ly),
        z3.Implies(seq_eq_rfc(x, y), lx == ly),
        z3.Implies(z3.And(lx == 0, ly == 0), z3.And(seq_eq_py(x, y), seq_eq_rfc(x, y))),
        z3.Implies(
            z3.And(lx == 1, ly == 1),
            z3.And(
                seq_eq_py(x, y) == py_eq(x[0], y[0]),
                seq_eq_rfc(x, y) == rfc_eq(x[0], y[0]),
            ),
        ),
    ]


def dict_eq_unfold_facts(a, b):
    """Sound facts about deep equality of two dict terms (objects compare as member sets)."""
    la, lb = z3.Length(Py.keys(a)), z3.Length(Py.keys(b))
    return [
        z3.Implies(dict_eq_py(a, b), la == lb),
        z3.Implies(dict_eq_rfc(a, b), la == lb),
        z3.Implies(z3.And(la == 0, lb == 0), z3.And(dict_eq_py(a, b), dict_eq_rfc(a, b))),
        z3.Implies(
            z3.And(la == 1, lb == 1),
            z3.And(
                dict_eq_py(a, b) == z3.And(py_eq(Py.keys(a)[0], Py.keys(b)[0]), py_eq(Py.vals(a)[0], Py.vals(b)[0])),
                dict_eq_rfc(a, b) == z3.And(Py.keys(a)[0] == Py.keys(b)[0], rfc_eq(Py.vals(a)[0], Py.vals(b)[0])),
            ),
        ),
    ]


# ---------------------------------------------------------------- dict lookup

dict_find = z3.Function("dict_find", SeqPy, Py, z3.IntSort())


def dict_find_facts(keys, k, index_terms=()):
    """Axioms of `dict_find(keys, k)` instantiated on the index terms present."""
    j = dict_find(keys, k)
    facts = [j >= -1, j < z3.Length(keys), z3.Implies(j >= 0, keys[j] == k)]
    for i in index_terms:
        facts.append(
            z3.Implies(z3.And(i >= 0, i < z3.Length(keys), keys[i] == k), j == i)
        )
    return facts


# ---------------------------------------------------------------- JSON-ness (precondition is_json)

isjson = z3.Function("isjson", Py, z3.BoolSort())


@_macro
def json_kind(t):
    return z3.Or(
        Py.is_none(t), Py.is_bool(t), Py.is_int(t), Py.is_float(t), Py.is_str(t), Py.is_list(t), Py.is_dict(t)
    )


@_macro
def json_value(t):
    """`t` is what json.loads produces: shallow kind restriction + the hereditary flag."""
    return z3.And(isjson(t), json_kind(t), z3.Implies(Py.is_dict(t), z3.Length(Py.keys(t)) == z3.Length(Py.vals(t))))


def json_child(c, e):
    """Element `e` extracted from container `c` inherits JSON-ness."""
    return z3.Implies(isjson(c), json_value(e))


def json_key(c, k):
    return z3.Implies(isjson(c), Py.is_str(k))


# ---------------------------------------------------------------- strings / ints

def int_to_str(n):
    """Python str(n) for an Int term."""
    return z3.If(n >= 0, z3.IntToStr(n), z3.Concat(z3.StringVal("-"), z3.IntToStr(-n)))


py_str_of = z3.Function("py_str_of", Py, z3.StringSort())  # str(x) of non-scalar
py_repr_of = z3.Function("py_repr_of", Py, z3.StringSort())
py_int_of_str = z3.Function("py_int_of_str", z3.StringSort(), z3.IntSort())
canon_str = z3.Function("canonical_string", z3.StringSort(), z3.StringSort())

DIGIT = z3.Range("0", "9")
NZDIGIT = z3.Range("1", "9")
RE_CANON_NAT = z3.Union(z3.Re("0"), z3.Concat(NZDIGIT, z3.Star(DIGIT)))
RE_DIGITS = z3.Plus(DIGIT)


@_macro
def py_str(t):
    return z3.If(
        Py.is_str(t),
        Py.s(t),
        z3.If(
            Py.is_int(t),
            int_to_str(Py.i(t)),
            z3.If(
                Py.is_none(t),
                z3.StringVal("None"),
                z3.If(
                    Py.is_bool(t),
                    z3.If(Py.b(t), z3.StringVal("True"), z3.StringVal("False")),
                    py_str_of(t),
                ),
            ),
        ),
    )


# ---------------------------------------------------------------- models -> Python

from .pyvalues import UNDEFINED_PY, Undefined  # noqa: E402


def _unescape(s):
    """z3 prints non-ASCII / control characters as \\u{hex}: turn them back into characters."""
    import re as _re

    return _re.sub(r"\\u\{([0-9a-fA-F]+)\}", lambda mo: chr(int(mo.group(1), 16)), s)


def _seq_to_list(m, seq):
    n = m.eval(z3.Length(seq), model_completion=True).as_long()
    return [to_python(m, m.eval(seq[i], model_completion=True)) for i in range(n)]


def to_python(m, t):
    """Concretise a Py term under model `m` into a Python value."""
    t = m.eval(t, model_completion=True)
    d = t.decl().name()
    if d == "none":
        return None
    if d == "bool":
        return z3.is_true(t.arg(0))
    if d == "int":
        return t.arg(0).as_long()
    if d == "float":
        v = t.arg(0)
        if z3.is_rational_value(v):
            return float(fractions.Fraction(v.numerator_as_long(), v.denominator_as_long()))
        return float(v.approx(10).as_fraction())
    if d == "str":
        return _unescape(t.arg(0).as_string()) if z3.is_string_value(t.arg(0)) else str(t.arg(0))
    if d == "list":
        return _seq_to_list(m, t.arg(0))
    if d == "tuple":
        return tuple(_seq_to_list(m, t.arg(0)))
    if d == "dict":
        ks = _seq_to_list(m, t.arg(0))
        vs = _seq_to_list(m, t.arg(1))
        out = {}
        for k, v in zip(ks, vs):
            try:
                out.setdefault(k, v)
            except TypeError:
                out[repr(k)] = v
        return out
    if d == "undef":
        return UNDEFINED_PY
    if d == "obj":
        return ("<obj>", t.arg(0).as_long())
    if d == "nodelist":
        return ("<nodelist>", _seq_to_list(m, t.arg(0)))
    if d == "pattern":
        return ("<pattern>", to_python(m, Py.str(t.arg(0))), t.arg(1).as_long())
    if d == "match":
        return {
            "<match>": True,
            "obj": to_python(m, t.arg(0)),
            "parts": to_python(m, t.arg(1)),
            "path": to_python(m, Py.str(t.arg(2))),
            "root": to_python(m, t.arg(3)),
        }
    return ("<?>", str(t))


def from_python(v):
    """Lift a concrete Python value to a Py term."""
    if v is None:
        return NONE
    if isinstance(v, bool):
        return mk_bool(v)
    if isinstance(v, int):
        return mk_int(v)
    if isinstance(v, float):
        return mk_float(v)
    if isinstance(v, str):
        return mk_str(v)
    if isinstance(v, list):
        return mk_list([from_python(x) for x in v])
    if isinstance(v, tuple):
        return mk_tuple([from_python(x) for x in v])
    if isinstance(v, dict):
        return Py.dict(
            mk_seq([from_python(k) for k in v]), mk_seq([from_python(x) for x in v.values()])
        )
    if isinstance(v, Undefined):
        return UNDEF
    raise TypeError(f"cannot lift {v!r}")


# ---- canonical structural text of a term: independent of z3's AST ids (z3.simplify orders the
# ---- arguments of commutative operators by id, i.e. by allocation history)

_COMMUTATIVE = {z3.Z3_OP_AND, z3.Z3_OP_OR, z3.Z3_OP_EQ, z3.Z3_OP_DISTINCT, z3.Z3_OP_ADD, z3.Z3_OP_MUL, z3.Z3_OP_XOR}
_DECL_TXT = {}


def canon_text(t):
    """A short digest of the (simplified) term's structure; commutative operators are read as
    multisets.  Equal digests <=> structurally equal terms up to argument order of AC operators."""
    import hashlib

    t = z3.simplify(t)
    memo = {}

    def decl_txt(d):
        k = d.get_id()
        if k not in _DECL_TXT:
            _DECL_TXT[k] = (d.sexpr(), d)  # keep the decl alive: ids are reused otherwise
        return _DECL_TXT[k][0]

    def go(e):
        k = e.get_id()
        if k in memo:
            return memo[k]
        if not z3.is_app(e):
            r = hashlib.sha1(e.sexpr().encode()).hexdigest()[:16]
        elif e.num_args() == 0:
            r = hashlib.sha1(e.sexpr().encode()).hexdigest()[:16]
        else:
            kids = [go(e.arg(i)) for i in range(e.num_args())]
            if e.decl().kind() in _COMMUTATIVE:
                kids.sort()
            r = hashlib.sha1((decl_txt(e.decl()) + "(" + ",".join(kids) + ")").encode()).hexdigest()[:16]
        memo[k] = r
        return r

    import sys

    lim = sys.getrecursionlimit()
    if lim < 20000:
        sys.setrecursionlimit(20000)
    return go(t)

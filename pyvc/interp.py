"""Path-enumerating symbolic interpreter for the Python subset used by the code under contract.

Direct-style AST interpreter.  Branching on a symbolic condition consults a decision
oracle; `explore` re-runs the function once per decision sequence (DESIGN 2.3).
`for` loops over symbolic sequences are summarised by one symbolic iteration
(foreach rule); their bodies are explored in a cloned state.
"""
from __future__ import annotations

import ast
import os
import sys
import inspect
import sys
import types

import z3

from . import sorts as S
from .sorts import Py

SOLVER_TIMEOUT_MS = 10000


class Unsupported(Exception):
    """The construct is outside the verified subset - never a violation."""


class _NotAList(Exception):
    pass


class Infeasible(Exception):
    """The current path condition is unsatisfiable."""


class PyRaise(Exception):
    def __init__(self, exc):
        super().__init__(str(exc))
        self.exc = exc


class ExcVal:
    """A raised Python exception: real class + argument values."""

    def __init__(self, cls, args=(), attrs=None, cause=None):
        self.cls = cls
        self.args = list(args)
        self.attrs = attrs or {}
        self.cause = cause

    def __repr__(self):
        return f"{self.cls.__name__}({', '.join(map(str, self.args))})"


class SymObj:
    """A heap object: instance of a real class with symbolic fields."""

    __slots__ = ("cls", "fields", "ref", "origin", "abstract")

    def __init__(self, cls, fields=None, ref=None, origin="FRESH", abstract=False):
        self.cls = cls
        self.fields = fields if fields is not None else {}
        self.ref = ref
        self.origin = origin
        self.abstract = abstract

    def __repr__(self):
        return f"<{self.cls.__name__}#{self.ref}>"


class FuncVal:
    def __init__(self, node, module, qualname, closure=None, owner=None):
        self.node = node
        self.module = module
        self.qualname = qualname
        self.closure = closure
        self.owner = owner

    @property
    def is_generator(self):
        return _has_yield(self.node)

    def __repr__(self):
        return f"<func {self.qualname}>"


class BoundMethod:
    def __init__(self, self_val, func):
        self.self_val = self_val
        self.func = func


class ClassVal:
    def __init__(self, cls):
        self.cls = cls

    def __repr__(self):
        return f"<class {self.cls.__name__}>"


class Builtin:
    def __init__(self, name, fn):
        self.name = name
        self.fn = fn

    def __repr__(self):
        return f"<builtin {self.name}>"


class ModuleVal:
    def __init__(self, mod):
        self.mod = mod


class GenVal:
    """Result of calling a generator function: its (eagerly computed) trace."""

    def __init__(self, items, pending_exc=None):
        self.items = items
        self.pending_exc = pending_exc


class LazyGen:
    """A generator expression: evaluated when consumed (cell semantics, DESIGN 3.5)."""

    def __init__(self, node, frame, first_iter):
        self.node = node
        self.frame = frame
        self.first_iter = first_iter  # outermost iterable, evaluated eagerly


class IterSpec:
    """A symbolic finite iteration domain.

    key   - structural descriptor used to decide that two loops range over the same thing
    elem  - function index-term -> loop target value
    bound - function index-term -> z3 Bool ("index is inside the domain")
    """

    def __init__(self, key, elem, bound, length=None, term=None):
        self.key = key
        self.elem = elem
        self.bound = bound
        self.length = length
        self.term = term  # the value as a Py term, when the view is also a plain value


class SliceVal:
    def __init__(self, start, stop, step):
        self.start, self.stop, self.step = start, stop, step


class RangeVal:
    def __init__(self, start, stop, step):
        self.start, self.stop, self.step = start, stop, step  # z3 Int terms


class GhostChildren:
    """`match.children` of a match term: only written, recorded as an effect."""

    def __init__(self, owner):
        self.owner = owner


class Frame:
    def __init__(self, func=None, closure=None):
        self.vars = {}
        self.func = func
        self.closure = closure

    def lookup(self, name):
        f = self
        while f is not None:
            if name in f.vars:
                return f.vars[name]
            f = f.closure
        raise KeyError(name)

    def has(self, name):
        f = self
        while f is not None:
            if name in f.vars:
                return True
            f = f.closure
        return False


class SuperProxy:
    def __init__(self, self_val, owner):
        self.self_val = self_val
        self.owner = owner


class Poison:
    def __init__(self, name):
        self.name = name


class Oracle:
    """Replays a recorded history of branch outcomes, then explores.

    history entries are (value, decided): `decided` = both sides were feasible (a real fork);
    forced outcomes are replayed without calling the solver (execution is deterministic)."""

    def __init__(self, prefix=()):
        self.prefix = list(prefix)
        self.taken = []
        self.alts = []

    def replay(self):
        pos = len(self.taken)
        if pos < len(self.prefix):
            e = self.prefix[pos]
            self.taken.append(e)
            return e
        return None

    def forced(self, value):
        self.taken.append((value, False))

    def decide(self):
        self.alts.append(self.taken + [(False, True)])
        self.taken.append((True, True))
        return True


def _has_yield(node):
    for n in _walk_no_nested(node):
        if isinstance(n, (ast.Yield, ast.YieldFrom)):
            return True
    return False


def _walk_no_nested(fn):
    """Walk a function body without descending into nested function definitions."""
    stack = list(fn.body)
    while stack:
        n = stack.pop()
        if isinstance(n, (ast.FunctionDef, ast.AsyncFunctionDef, ast.Lambda, ast.ClassDef)):
            continue
        yield n
        for c in ast.iter_child_nodes(n):
            if isinstance(c, (ast.FunctionDef, ast.AsyncFunctionDef, ast.Lambda, ast.ClassDef)):
                continue
            stack.append(c)


_REGEX_REL = {}


def regex_relation(r1, r2):
    """'subset' (L(r1) inside L(r2)), 'disjoint', or None - decided by z3 on a fresh string variable."""
    key = (r1.get_id(), r2.get_id())
    if key not in _REGEX_REL:
        x = z3.String("regex!probe")
        s1 = z3.Solver()
        s1.set("timeout", 5000)
        s1.add(z3.InRe(x, r1), z3.Not(z3.InRe(x, r2)))
        rel = None
        if s1.check() == z3.unsat:
            rel = "subset"
        else:
            s2 = z3.Solver()
            s2.set("timeout", 5000)
            s2.add(z3.InRe(x, r1), z3.InRe(x, r2))
            if s2.check() == z3.unsat:
                rel = "disjoint"
        _REGEX_REL[key] = (rel, r1, r2)  # keep the terms alive: ids are reused otherwise
    return _REGEX_REL[key][0]


_IDENTITY_REFS = {}  # identity-only values -> heap reference (one numbering per process)
MODEL_REUSE = not os.environ.get("PYVC_NO_MODEL_REUSE")  # fallback switch used by run_check.py when a worker dies
FOLD_REGISTRY = {}  # fold-step hash -> (kinds, accumulators, index, results): the steps met while verifying one contract


# --------------------------------------------------------------------------- source index

_MODULE_INDEX = {}


def module_index(mod):
    """qualname -> FunctionDef for every function of a live module, parsed from its file."""
    if mod.__name__ in _MODULE_INDEX:
        return _MODULE_INDEX[mod.__name__]
    with open(mod.__file__, encoding="utf-8") as fd:
        src = fd.read()
    tree = ast.parse(src)
    idx = {}

    def visit(body, prefix):
        for n in body:
            if isinstance(n, (ast.FunctionDef, ast.AsyncFunctionDef)):
                idx[prefix + n.name] = n
                visit(n.body, prefix + n.name + ".<locals>.")
            elif isinstance(n, ast.ClassDef):
                visit(n.body, prefix + n.name + ".")
            elif isinstance(n, (ast.If, ast.Try)):
                visit(n.body, prefix)

    visit(tree.body, "")
    _MODULE_INDEX[mod.__name__] = idx
    idx["<source>"] = src
    return idx


def func_source_segment(mod, qualname):
    idx = module_index(mod)
    node = idx[qualname]
    return ast.get_source_segment(idx["<source>"], node)


def lookup_function(pyfunc):
    """Live function object -> FuncVal built from the source of its module."""
    pyfunc = inspect.unwrap(pyfunc)
    if isinstance(pyfunc, (staticmethod, classmethod)):
        pyfunc = pyfunc.__func__
    mod = sys.modules[pyfunc.__module__]
    idx = module_index(mod)
    node = idx.get(pyfunc.__qualname__)
    if node is None:
        raise Unsupported(f"no source for {pyfunc.__qualname__}")
    owner = None
    if "." in pyfunc.__qualname__ and "<locals>" not in pyfunc.__qualname__:
        owner = mod
        for part in pyfunc.__qualname__.split(".")[:-1]:
            owner = getattr(owner, part, None)
        if not isinstance(owner, type):
            owner = None
    return FuncVal(node, mod, pyfunc.__qualname__, owner=owner)


# --------------------------------------------------------------------------- interpreter


class Interp:
    def __init__(self, ns="c", oracle=None, contracts=None, timeout_ms=SOLVER_TIMEOUT_MS):
        self.ns = ns
        self.pc = []
        self.solver = z3.Solver()
        self.solver.set("timeout", timeout_ms)
        self.oracle = oracle or Oracle()
        self.trace = []
        self.heap = {}
        self.next_ref = 1000
        self.fresh_n = 0
        self.loop_depth = 0
        self.index_terms = []
        self.contracts = contracts or {}
        self.call_depth = 0
        self.assumed = []  # names of library / contract assumptions used on this path
        self.solver_calls = 0
        self.singletons = {}
        self.unsupported_ok = False
        self.sub_pc_start = None
        self.regex_facts = []
        self.model, self.model_ok = None, 0
        self.decisions = []  # the branch conditions taken on this path (a subset of pc: the rest are facts)
        self.side_obligations = []  # (label, premises, goal): preconditions at modular call sites, asserts
        self.flags = {}

    # ---- solver / path condition

    def assume(self, c):
        if isinstance(c, bool):
            if not c:
                raise Infeasible()
            return
        self.pc.append(c)
        self.solver.add(c)
        self._note_regex_fact(c)

    # ---- regular-language shortcuts: membership questions about a string that already has
    # ---- membership facts are answered from language inclusion / disjointness of the two (concrete)
    # ---- regexes, decided once per pair by a stand-alone query on a fresh variable (milliseconds),
    # ---- instead of in the full path condition (seconds).

    def _note_regex_fact(self, c):
        pol = True
        while z3.is_not(c):
            c, pol = c.arg(0), not pol
        if z3.is_app(c) and c.decl().kind() == z3.Z3_OP_SEQ_IN_RE:
            self.regex_facts.append((c.arg(0), c.arg(1), pol))
        elif pol and z3.is_and(c):
            for k in range(c.num_args()):
                self._note_regex_fact(c.arg(k))

    def _regex_shortcut(self, c):
        pol = True
        while z3.is_not(c):
            c, pol = c.arg(0), not pol
        if not (z3.is_app(c) and c.decl().kind() == z3.Z3_OP_SEQ_IN_RE):
            return None
        x, r = c.arg(0), c.arg(1)
        for x0, r0, pol0 in self.regex_facts:
            if not z3.eq(x0, x):
                continue
            ans = None
            if pol0:
                rel = regex_relation(r0, r)
                if rel == "subset":
                    ans = True
                elif rel == "disjoint":
                    ans = False
            else:
                if regex_relation(r, r0) == "subset":
                    ans = False  # x not in r0 and r inside r0
            if ans is not None:
                return ans if pol else (not ans)
        return None

    def check(self, c=None):
        self.solver_calls += 1
        if c is None:
            r = self.solver.check()
            if r == z3.sat and MODEL_REUSE:
                self._take_model()
        else:
            # (push / add / check / pop rather than check(assumption): reading a model after a check
            # under a non-literal assumption crashed z3 5.1.0 natively on sequence formulas)
            self.solver.push()
            try:
                self.solver.add(c)
                r = self.solver.check()
                if r == z3.sat and MODEL_REUSE:
                    self._take_model()
            finally:
                self.solver.pop()
        return r != z3.unsat

    def _take_model(self):
        try:
            self.model = self.solver.model()
            self.model_ok = len(self.pc)
        except z3.Z3Exception:
            self.model = None

    def model_says(self, c):
        """True/False when the last satisfying assignment found on this path still satisfies the
        path condition and gives `c` that value (so that side of a branch is feasible without a
        solver call); None otherwise."""
        m = self.model
        if m is None:
            return None
        try:
            for p in self.pc[self.model_ok:]:
                if not z3.is_true(m.eval(p, model_completion=True)):
                    self.model = None
                    return None
            self.model_ok = len(self.pc)
            v = m.eval(c, model_completion=True)
        except z3.Z3Exception:
            self.model = None
            return None
        if z3.is_true(v):
            return True
        if z3.is_false(v):
            return False
        return None

    def valid(self, c):
        """pc => c ?  (unknown counts as not valid)"""
        self.solver_calls += 1
        return self.solver.check(z3.Not(c)) == z3.unsat

    def branch(self, c):
        if isinstance(c, bool):
            return c
        sc = z3.simplify(c)
        if z3.is_true(sc):
            return True
        if z3.is_false(sc):
            return False
        e = self.oracle.replay()
        if e is not None:
            val, decided = e
            if decided:
                self.assume(c if val else z3.Not(c))
                self.decisions.append(c if val else z3.Not(c))
            return val
        short = self._regex_shortcut(c)
        if short is not None:
            self.oracle.forced(short)
            return short
        known = self.model_says(c)
        if known is True:
            t, f = True, self.check(z3.Not(c))
        elif known is False:
            t, f = self.check(c), True
        else:
            t = self.check(c)
            f = self.check(z3.Not(c)) if t else True  # the path so far is feasible: one side must be
        if t and f:
            d = self.oracle.decide()
            self.assume(c if d else z3.Not(c))
            self.decisions.append(c if d else z3.Not(c))
            return d
        if t:
            self.oracle.forced(True)
            return True
        if f:
            self.oracle.forced(False)
            return False
        raise Infeasible()

    def obligate(self, label, goal):
        """Record `pc => goal` as an obligation of the function being verified (e.g. a callee's
        precondition at a modular call site)."""
        if getattr(self, "no_pre_obligations", False):
            return  # the callee's precondition is discharged by the caller's own contract elsewhere
        self.side_obligations.append((label, list(self.pc), goal))

    def fresh(self, hint, sort):
        self.fresh_n += 1
        return z3.Const(f"{self.ns}!{hint}!{self.fresh_n}", sort)

    # ---- heap

    def alloc(self, cls, fields=None, origin="FRESH", abstract=False):
        self.next_ref += 1
        o = SymObj(cls, fields, self.next_ref, origin, abstract)
        self.heap[o.ref] = o
        return o

    def obj_term(self, o):
        return Py.obj(z3.IntVal(o.ref))

    def deref(self, t):
        t = z3.simplify(t)
        if z3.is_app(t) and t.num_args() == 1 and t.decl().name() == "obj" and z3.is_int_value(t.arg(0)):
            return self.heap.get(t.arg(0).as_long())
        return None

    def to_term(self, v):
        """Any interpreter value -> Py term."""
        if S.is_term(v):
            return v
        if isinstance(v, SymObj):
            if v.cls.__name__ == "JSONPathMatch":
                f = v.fields
                parent = f.get("parent", S.NONE)
                return Py.match(
                    self.to_term(f["obj"]),
                    self.to_term(f["parts"]),
                    Py.s(self.to_term(f["path"])),
                    self.to_term(f["root"]),
                    self.to_term(f["_filter_context"]),
                    self.to_term(parent),
                )
            if v.cls.__name__ == "JSONPointer" and "parts" in v.fields and "_s" in v.fields:
                # a pointer is a value: (tag, tokens, text)
                return S.mk_tuple([S.mk_str("<JSONPointer>"), self.to_term(v.fields["parts"]), self.to_term(v.fields["_s"])])
            return self.obj_term(v)
        if isinstance(v, bool):
            return S.mk_bool(v)
        if isinstance(v, int):
            return S.mk_int(v)
        if isinstance(v, str):
            return S.mk_str(v)
        if v is None:
            return S.NONE
        if isinstance(v, float):
            return S.mk_float(v)
        if isinstance(v, (tuple, list)):
            elems = [self.to_term(x) for x in v]
            return S.mk_tuple(elems) if isinstance(v, tuple) else S.mk_list(elems)
        if isinstance(v, dict):
            return Py.dict(
                S.mk_seq([self.to_term(k) for k in v]),
                S.mk_seq([self.to_term(x) for x in v.values()]),
            )
        if isinstance(v, IterSpec) and v.term is not None:
            return v.term
        if isinstance(v, (ClassVal, FuncVal, BoundMethod, Builtin, ModuleVal, SliceVal, GenVal, LazyGen, IterSpec, RangeVal, GhostChildren)):
            return self.singleton_term(v)
        raise Unsupported(f"to_term({type(v).__name__})")

    def singleton_term(self, v):
        key = id(v)
        if isinstance(v, ClassVal):
            key = ("class", v.cls)
        if key not in self.singletons:
            # values that only need an identity (classes, functions, builtins) get their references from a
            # range of their own, keyed per process: evaluating one more `isinstance(x, C)` must not shift
            # the references of the objects the program allocates (the two sides of a comparison have to
            # number those the same way)
            pkey = ("class", v.cls.__module__, v.cls.__qualname__) if isinstance(v, ClassVal) else ("id", id(v))
            ref = _IDENTITY_REFS.setdefault(pkey, 500000 + len(_IDENTITY_REFS))
            self.singletons[key] = (ref, v)
            self.heap[ref] = v
        return Py.obj(z3.IntVal(self.singletons[key][0]))

    def truth(self, v):
        """z3 Bool / python bool for Python truthiness of a value."""
        if S.is_term(v):
            o = self.deref(v)
            if o is not None and not S.is_term(o):
                return self.truth(o)
            return S.truthy(v)
        if isinstance(v, SymObj):
            from . import lib as _lib

            if _lib.is_box_cls(v.cls) and "v" in v.fields:
                return S.truthy(v.fields["v"])  # a container object is as true as its content
            if "__bool__" in _mro_dict(v.cls) or "__len__" in _mro_dict(v.cls):
                raise Unsupported("truthiness of object with __bool__/__len__")
            return True
        if isinstance(v, (FuncVal, BoundMethod, ClassVal, Builtin, SliceVal)):
            return True
        if isinstance(v, IterSpec) and v.term is not None:
            return S.truthy(v.term)
        raise Unsupported(f"truth({type(v).__name__})")

    # ---- snapshots for sub-exploration

    def clone_state(self, frame):
        memo = {}

        def cl(v):
            if isinstance(v, SymObj):
                if id(v) in memo:
                    return memo[id(v)]
                n = SymObj(v.cls, {}, v.ref, v.origin, v.abstract)
                memo[id(v)] = n
                for k, x in v.fields.items():
                    n.fields[k] = cl(x)
                return n
            if isinstance(v, Frame):
                if id(v) in memo:
                    return memo[id(v)]
                n = Frame(v.func, None)
                memo[id(v)] = n
                n.closure = cl(v.closure) if v.closure is not None else None
                for k, x in v.vars.items():
                    n.vars[k] = cl(x)
                return n
            if isinstance(v, FuncVal) and v.closure is not None:
                return FuncVal(v.node, v.module, v.qualname, cl(v.closure), v.owner)
            if isinstance(v, BoundMethod):
                return BoundMethod(cl(v.self_val), cl(v.func))
            if isinstance(v, LazyGen):
                return LazyGen(v.node, cl(v.frame), cl(v.first_iter))
            if isinstance(v, list):
                return [cl(x) for x in v]
            if isinstance(v, tuple):
                return tuple(cl(x) for x in v)
            if isinstance(v, dict):
                return {k: cl(x) for k, x in v.items()}
            return v

        new_frame = cl(frame)
        new_heap = {r: cl(o) for r, o in self.heap.items()}
        return new_frame, new_heap

    def explore_sub(self, frame, thunk):
        """Run `thunk(frame')` for every decision sequence from a clone of the state.

        Returns a list of dicts(pc=[...], trace=[...], exit=ctrl).
        """
        results = []
        work = [[]]
        saved = (self.heap, self.oracle, self.trace, len(self.pc), list(self.index_terms), len(self.regex_facts), len(self.decisions))
        outer_start = self.sub_pc_start
        n = 0
        try:
            while work:
                prefix = work.pop()
                n += 1
                if n > 400:
                    raise Unsupported("too many paths in loop body")
                fr, heap = self.clone_state(frame)
                self.heap = heap
                self.oracle = Oracle(prefix)
                self.trace = []
                self.solver.push()
                self.sub_pc_start = None
                try:
                    try:
                        ctrl = thunk(fr)
                        exit_ = ctrl if ctrl is not None else ("next",)
                    except PyRaise as e:
                        exit_ = ("raise", e.exc)
                    start = self.sub_pc_start if self.sub_pc_start is not None else saved[3]
                    results.append({"pc": self.pc[start:], "trace": self.trace, "exit": exit_, "decisions": self.decisions[saved[6]:]})
                except Infeasible:
                    pass
                finally:
                    work.extend(self.oracle.alts)
                    self.solver.pop()
                    del self.pc[saved[3]:]
                    self.model_ok = min(self.model_ok, saved[3])
                    del self.regex_facts[saved[5]:]
                    del self.decisions[saved[6]:]
                    self.index_terms = list(saved[4])
        finally:
            self.heap, self.oracle, self.trace = saved[0], saved[1], saved[2]
            self.sub_pc_start = outer_start
        return results

    # ---- name resolution

    def lift(self, pyobj, name="?"):
        """Live Python object found in a module namespace -> interpreter value."""
        from . import lib

        if pyobj is None or isinstance(pyobj, (bool, int, float, str)):
            return self.to_term(pyobj)
        ext = getattr(self, "externals", None)
        if ext and id(pyobj) in ext:
            return ext[id(pyobj)]  # a contract's model of something outside the library (streams, sys.exit, ...)
        b = lib.builtin_for(pyobj)
        if b is not None:
            return b
        if isinstance(pyobj, tuple):
            return self.to_term(tuple(self.lift(x) for x in pyobj))
        if isinstance(pyobj, types.ModuleType):
            return ModuleVal(pyobj)
        if isinstance(pyobj, type):
            return ClassVal(pyobj)
        if isinstance(getattr(pyobj, "__origin__", None), type):  # typing.Mapping, typing.Sequence, ...
            return ClassVal(pyobj.__origin__)
        if isinstance(pyobj, types.FunctionType):
            if pyobj.__module__.startswith(("jsonpath", "specs", "contracts")):
                return lookup_function(pyobj)
            raise Unsupported(f"foreign function {pyobj.__module__}.{pyobj.__qualname__}")
        s = lib.singleton_for(self, pyobj)
        if s is not None:
            return s
        raise Unsupported(f"cannot lift global {name}: {type(pyobj).__name__}")

    def lookup_name(self, name, frame):
        if frame.has(name):
            v = frame.lookup(name)
            if isinstance(v, Poison):
                raise Unsupported(f"loop-carried variable {v.name} read after/inside a summarised loop")
            return v
        mod = frame.func.module if frame.func is not None else None
        f = frame
        while mod is None and f is not None:
            mod = f.func.module if f.func else None
            f = f.closure
        if mod is not None and name in mod.__dict__:
            return self.lift(mod.__dict__[name], name)
        import builtins

        if hasattr(builtins, name):
            return self.lift(getattr(builtins, name), name)
        raise Unsupported(f"unbound name {name}")

    # ---- exceptions

    def raise_(self, cls, *args, **attrs):
        raise PyRaise(ExcVal(cls, [self.to_term(a) if not S.is_term(a) else a for a in args], attrs))

    # ---- calls

    def call(self, fn, args, kwargs=None):
        kwargs = kwargs or {}
        from . import lib

        if isinstance(fn, Builtin):
            return fn.fn(self, args, kwargs)
        if isinstance(fn, BoundMethod):
            return self.call_function(fn.func, [fn.self_val] + list(args), kwargs)
        if isinstance(fn, FuncVal):
            return self.call_function(fn, list(args), kwargs)
        if isinstance(fn, ClassVal):
            return lib.instantiate(self, fn.cls, args, kwargs)
        if S.is_term(fn):
            o = self.deref(fn)
            if o is not None and not S.is_term(o):
                return self.call(o, args, kwargs)
        if isinstance(fn, SymObj) and "__call__" in _mro_dict(fn.cls):
            return self.call_method(fn, "__call__", args, kwargs)
        raise Unsupported(f"call of {fn!r}")

    def call_function(self, fv, args, kwargs):
        key = _fkey(fv)
        over = getattr(self, "recursion_contract", None)
        if over and key in over:
            return over[key](self, fv, args, kwargs)  # modular recursion: the call inside the body under verification
        c = self.contracts.get(key)
        if c is not None and key not in getattr(self, "inline", ()):
            return c(self, fv, args, kwargs)
        return self.run_function(fv, args, kwargs)

    def bind_args(self, fv, args, kwargs):
        node = fv.node
        a = node.args
        frame = Frame(fv, fv.closure)
        params = [p.arg for p in a.posonlyargs + a.args]
        defaults = a.defaults
        ndef = len(defaults)
        args = list(args)
        kwargs = dict(kwargs)
        for i, p in enumerate(params):
            if i < len(args):
                frame.vars[p] = args[i]
            elif p in kwargs:
                frame.vars[p] = kwargs.pop(p)
            else:
                di = i - (len(params) - ndef)
                if di < 0:
                    raise Unsupported(f"missing argument {p} for {fv.qualname}")
                frame.vars[p] = self.eval(defaults[di], Frame(fv, fv.closure))
        if a.vararg:
            frame.vars[a.vararg.arg] = self.to_term(tuple(args[len(params):]))
        elif len(args) > len(params):
            raise Unsupported(f"too many positional args for {fv.qualname}")
        for p, d in zip(a.kwonlyargs, a.kw_defaults):
            if p.arg in kwargs:
                frame.vars[p.arg] = kwargs.pop(p.arg)
            elif d is not None:
                frame.vars[p.arg] = self.eval(d, Frame(fv, fv.closure))
            else:
                raise Unsupported(f"missing kw argument {p.arg} for {fv.qualname}")
        if a.kwarg:
            raise Unsupported("**kwargs parameter")
        if kwargs:
            raise Unsupported(f"unexpected kwargs {list(kwargs)} for {fv.qualname}")
        return frame

    def run_function(self, fv, args, kwargs):
        self.call_depth += 1
        if self.call_depth > 40:
            raise Unsupported(f"call depth exceeded at {fv.qualname}")
        try:
            frame = self.bind_args(fv, args, kwargs)
            if fv.is_generator:
                saved = self.trace
                self.trace = []
                pending = None
                try:
                    self.exec_block(fv.node.body, frame)
                except PyRaise as e:
                    pending = e.exc
                items = self.trace
                self.trace = saved
                return GenVal(items, pending)
            ctrl = self.exec_block(fv.node.body, frame)
            if ctrl is not None and ctrl[0] == "return":
                return ctrl[1]
            return S.NONE
        finally:
            self.call_depth -= 1

    def find_method(self, cls, name):
        for k in cls.__mro__:
            if name in k.__dict__:
                return k, k.__dict__[name]
        return None, None

    def call_method(self, obj, name, args, kwargs=None):
        m = self.getattr(obj, name)
        return self.call(m, args, kwargs or {})

    # ---- attribute access

    def getattr(self, v, name):
        from . import lib

        if isinstance(v, SymObj):
            if name in v.fields:
                return v.fields[name]
            if name == "__class__":
                return ClassVal(v.cls)
            if v.abstract and name in lib.ABSTRACT_METHODS:
                return lib.abstract_attr(self, v, name)
            owner, attr = self.find_method(v.cls, name)
            if owner is None:
                if v.abstract:
                    return lib.abstract_attr(self, v, name)
                self.raise_(AttributeError, name)
            return self.class_attr(owner, attr, v, name)
        if isinstance(v, SuperProxy):
            return lib._super_getattr(self, v.self_val, v.owner, name)
        if isinstance(v, GhostChildren):
            if name in ("extend", "append"):
                def add(it, a, k, _o=v.owner, _n=name):
                    s_ = lib.seq_of(it, a[0]) if _n == "extend" else z3.Unit(it.to_term(a[0]))
                    it.trace.append(("effect", "add_child", _o, s_))
                    return S.NONE
                return Builtin("children." + name, add)
            raise Unsupported("read of match.children")
        if isinstance(v, tuple) and v and v[0] == "classof":
            if name == "__name__":
                return Py.str(lib.class_name_of(v[1]))
            raise Unsupported("__class__ attribute")
        if isinstance(v, ClassVal):
            if name == "__name__":
                return S.mk_str(v.cls.__name__)
            owner, attr = self.find_method(v.cls, name)
            if owner is None:
                raise Unsupported(f"class attribute {v.cls.__name__}.{name}")
            if isinstance(attr, classmethod):
                return BoundMethod(v, lookup_function(attr.__func__))
            if isinstance(attr, staticmethod):
                return lookup_function(attr.__func__)
            if isinstance(attr, types.FunctionType):
                return lookup_function(attr)
            return self.lift(attr, name)
        if isinstance(v, ModuleVal):
            return self.lift(getattr(v.mod, name), name)
        if isinstance(v, SliceVal):
            if name in ("start", "stop", "step"):
                return getattr(v, name)
            if name == "indices":
                return Builtin("slice.indices", lambda it, a, k: lib.slice_indices(it, v, a[0]))
        if isinstance(v, ExcVal):
            if name in v.attrs:
                return v.attrs[name]
            if name == "args":
                return self.to_term(tuple(v.args))
            raise Unsupported(f"exception attribute {name}")
        if S.is_term(v):
            o = self.deref(v)
            if o is not None:
                return self.getattr(o, name)
            return lib.term_attr(self, v, name)
        if isinstance(v, GenVal) or isinstance(v, LazyGen):
            raise Unsupported(f"generator attribute {name}")
        raise Unsupported(f"getattr({type(v).__name__}, {name})")

    def class_attr(self, owner, attr, inst, name):
        if isinstance(attr, types.FunctionType):
            fv = lookup_function(attr)
            fv.owner = owner
            return BoundMethod(inst, fv)
        if isinstance(attr, classmethod):
            return BoundMethod(ClassVal(inst.cls if isinstance(inst, SymObj) else owner), lookup_function(attr.__func__))
        if isinstance(attr, staticmethod):
            return lookup_function(attr.__func__)
        if isinstance(attr, property):
            return self.call_function(lookup_function(attr.fget), [inst], {})
        if isinstance(attr, types.MemberDescriptorType):
            # a slot that was never assigned
            self.raise_(AttributeError, name)
        return self.lift(attr, name)

    def setattr(self, v, name, val):
        if isinstance(v, SymObj):
            if v.origin != "FRESH":
                self.trace.append(("write", v.origin, v.cls.__name__, name))
            v.fields[name] = val
            return
        if S.is_term(v):
            o = self.deref(v)
            if isinstance(o, SymObj):
                return self.setattr(o, name, val)
            self.trace.append(("write", "TERM", str(z3.simplify(v))[:40], name))
            raise Unsupported(f"attribute store on value term .{name}")
        if isinstance(v, ExcVal):
            v.attrs[name] = val
            return
        raise Unsupported(f"setattr on {type(v).__name__}")

    # ---- statements

    def exec_block(self, stmts, frame):
        for s in stmts:
            ctrl = self.exec_stmt(s, frame)
            if ctrl is not None:
                return ctrl
        return None

    def exec_stmt(self, s, frame):  # noqa: PLR0911, PLR0912
        m = getattr(self, "st_" + type(s).__name__, None)
        if m is None:
            raise Unsupported(f"statement {type(s).__name__} (line {getattr(s, 'lineno', '?')})")
        return m(s, frame)

    def st_Expr(self, s, frame):
        if isinstance(s.value, ast.Constant):
            return None  # docstring
        self.eval(s.value, frame)
        return None

    def st_Pass(self, s, frame):
        return None

    def st_Return(self, s, frame):
        return ("return", self.eval(s.value, frame) if s.value is not None else S.NONE)

    def st_Break(self, s, frame):
        return ("break",)

    def st_Continue(self, s, frame):
        return ("continue",)

    def st_Assign(self, s, frame):
        v = self.eval(s.value, frame)
        for t in s.targets:
            self.assign(t, v, frame)
        return None

    def st_AnnAssign(self, s, frame):
        if s.value is not None:
            self.assign(s.target, self.eval(s.value, frame), frame)
        return None

    def st_AugAssign(self, s, frame):
        from . import lib

        cur = self.eval(_load(s.target), frame)
        v = lib.binop(self, s.op, cur, self.eval(s.value, frame))
        self.assign(s.target, v, frame)
        return None

    def assign(self, target, v, frame):
        from . import lib

        if isinstance(target, ast.Name):
            frame.vars[target.id] = v
        elif isinstance(target, (ast.Tuple, ast.List)):
            n = len(target.elts)
            parts = lib.unpack(self, v, n)
            for t, x in zip(target.elts, parts):
                self.assign(t, x, frame)
        elif isinstance(target, ast.Attribute):
            self.setattr(self.eval(target.value, frame), target.attr, v)
        elif isinstance(target, ast.Subscript):
            lib.setitem(self, self.eval(target.value, frame), self.eval_index(target.slice, frame), v, frame, target.value)
        else:
            raise Unsupported(f"assignment target {type(target).__name__}")

    def st_Delete(self, s, frame):
        from . import lib

        for t in s.targets:
            if isinstance(t, ast.Subscript):
                lib.delitem(self, self.eval(t.value, frame), self.eval_index(t.slice, frame), frame, t.value)
            else:
                raise Unsupported("del of non-subscript")
        return None

    def st_If(self, s, frame):
        if self.branch(self.truth(self.eval(s.test, frame))):
            return self.exec_block(s.body, frame)
        return self.exec_block(s.orelse, frame)

    def st_Assert(self, s, frame):
        if not self.branch(self.truth(self.eval(s.test, frame))):
            self.raise_(AssertionError)
        return None

    def st_Raise(self, s, frame):
        if s.exc is None:
            cur = frame.vars.get("<handled>")
            if cur is None:
                raise Unsupported("bare raise outside handler")
            raise PyRaise(cur)
        v = self.eval(s.exc, frame)
        if isinstance(v, ClassVal):
            v = ExcVal(v.cls, [])
        if not isinstance(v, ExcVal):
            raise Unsupported(f"raise of {v!r}")
        if s.cause is not None:
            c = self.eval(s.cause, frame)
            v.cause = c
        raise PyRaise(v)

    def st_Try(self, s, frame):
        if s.finalbody:
            raise Unsupported("try/finally")
        try:
            ctrl = self.exec_block(s.body, frame)
        except PyRaise as e:
            exc = e.exc
            for h in s.handlers:
                if h.type is None:
                    matched = True
                else:
                    matched = self.exc_matches(exc, self.eval(h.type, frame))
                if matched:
                    if h.name:
                        frame.vars[h.name] = exc
                    prev = frame.vars.get("<handled>")
                    frame.vars["<handled>"] = exc
                    try:
                        return self.exec_block(h.body, frame)
                    finally:
                        frame.vars["<handled>"] = prev
            raise
        if ctrl is None and s.orelse:
            return self.exec_block(s.orelse, frame)
        return ctrl

    def exc_matches(self, exc, spec):
        if isinstance(spec, ClassVal):
            return issubclass(exc.cls, spec.cls)
        if S.is_term(spec):
            t = z3.simplify(spec)
            o = self.deref(t)
            if isinstance(o, ClassVal):
                return issubclass(exc.cls, o.cls)
            if t.decl().name() == "tuple":
                n = z3.simplify(z3.Length(Py.titems(t)))
                if z3.is_int_value(n):
                    return any(
                        self.exc_matches(exc, z3.simplify(Py.titems(t)[i]))
                        for i in range(n.as_long())
                    )
        raise Unsupported(f"except clause {spec!r}")

    def st_With(self, s, frame):
        if len(s.items) != 1:
            raise Unsupported("with: several items")
        ctx = self.eval(s.items[0].context_expr, frame)
        if isinstance(ctx, tuple) and ctx and ctx[0] == "suppress":
            try:
                return self.exec_block(s.body, frame)
            except PyRaise as e:
                if any(issubclass(e.exc.cls, c) for c in ctx[1]):
                    return None
                raise
        raise Unsupported("with statement other than contextlib.suppress")

    def st_FunctionDef(self, s, frame):
        qn = (frame.func.qualname + ".<locals>." if frame.func else "") + s.name
        frame.vars[s.name] = FuncVal(s, frame.func.module if frame.func else None, qn, closure=frame)
        return None

    st_AsyncFunctionDef = st_FunctionDef

    def st_Import(self, s, frame):
        raise Unsupported("import inside function")

    def st_Global(self, s, frame):
        raise Unsupported("global")

    def st__CompBody(self, s, frame):
        from . import lib

        return lib._st_CompBody(self, s, frame)

    def st_While(self, s, frame):
        raise Unsupported("while loop without sidecar invariant")

    # ---- loops

    def st_For(self, s, frame):
        it = self.eval(s.iter, frame)
        return self.run_loop(s.target, it, s.body, s.orelse, frame)

    st_AsyncFor = st_For

    def run_loop(self, target, it, body, orelse, frame):
        from . import lib

        seq = lib.iterate(self, it)
        if isinstance(seq, list):  # concrete unrolling
            for v in seq:
                self.assign(target, v, frame)
                ctrl = self.exec_block(body, frame)
                if ctrl is not None:
                    if ctrl[0] == "break":
                        return None
                    if ctrl[0] == "continue":
                        continue
                    return ctrl
            if orelse:
                return self.exec_block(orelse, frame)
            return None
        if isinstance(seq, GenVal):
            ctrl = self.bind_trace(seq.items, target, body, frame)
            if ctrl is not None:
                if ctrl[0] == "break":
                    return None
                return ctrl
            if seq.pending_exc is not None:
                raise PyRaise(seq.pending_exc)
            return None
        if isinstance(seq, IterSpec):
            self.summarise_loop(seq, target, body, frame)
            if orelse:
                raise Unsupported("for/else over a symbolic sequence")
            return None
        raise Unsupported(f"iteration over {type(seq).__name__}")

    def bind_trace(self, items, target, body, frame):
        """`for target in <generator with trace items>: body`"""
        for item in items:
            kind = item[0]
            if kind == "yield":
                self.assign(target, item[1], frame)
                ctrl = self.exec_block(body, frame)
                if ctrl is not None:
                    if ctrl[0] == "continue":
                        continue
                    return ctrl
            elif kind in ("effect", "write"):
                self.trace.append(item)
            elif kind == "loop":
                _, spec, idx, alts = item
                new_alts = []
                assigned = _assigned_names(body) | _target_names(target)
                for alt in alts:
                    def thunk(fr, alt=alt):
                        for c in alt["pc"]:
                            self.assume(c)
                        if not self.check():
                            raise Infeasible()
                        ctrl = self.bind_trace(alt["trace"], target, body, fr)
                        if ctrl is not None:
                            return ctrl
                        return alt["exit"] if alt["exit"][0] != "next" else None
                    self.index_terms.append(idx)
                    new_alts.extend(self.explore_sub(frame, thunk))
                self.trace.append(("loop", spec, idx, new_alts))
                for n in assigned:
                    frame.vars[n] = Poison(n)
            elif kind == "yieldfrom":
                # for x in <abstract sequence>: body  == loop over that sequence
                from . import lib

                seqterm = item[1]
                spec = lib.seq_iterspec(self, seqterm)
                self.summarise_loop(spec, target, body, frame)
            else:
                raise Unsupported(f"bind over trace item {kind}")
        return None

    def summarise_loop(self, spec, target, body, frame):
        """foreach rule: one symbolic iteration stands for all (DESIGN 2.3, rule 1)."""
        self.loop_depth += 1
        idx = z3.Int(f"i!{self.loop_depth}")
        assigned = _assigned_names(body) | _target_names(target)
        carried = _loop_carried(body, target)
        if carried:
            try:
                return self.fold_loop(spec, target, body, frame, sorted(carried), idx)
            finally:
                self.loop_depth -= 1

        def thunk(fr):
            self.assume(spec.bound(idx))
            self.index_terms.append(idx)
            if not self.check():
                raise Infeasible()
            self.sub_pc_start = len(self.pc)
            self.assign(target, spec.elem(idx), fr)
            ctrl = self.exec_block(body, fr)
            if ctrl is not None and ctrl[0] == "continue":
                return None
            return ctrl

        try:
            alts = self.explore_sub(frame, thunk)
        finally:
            self.loop_depth -= 1
        for a in alts:
            if a["exit"][0] in ("break", "return"):
                # an early exit makes later iterations unreachable: keep it in the summary,
                # the comparison treats the exit kind as part of the body outcome.
                pass
        if (
            spec.key[0] == "seq"
            and len(alts) == 1
            and not alts[0]["pc"]
            and alts[0]["exit"][0] == "next"
            and len(alts[0]["trace"]) == 1
            and alts[0]["trace"][0][0] == "yield"
            and z3.eq(z3.simplify(alts[0]["trace"][0][1]), z3.simplify(spec.key[1][idx]))
        ):
            # `for x in xs: yield x`  is  `yield from xs`
            self.trace.append(("yieldfrom", spec.key[1]))
        else:
            self.trace.append(("loop", spec, idx, alts))
        for n in assigned:
            frame.vars[n] = Poison(n)

    def fold_loop(self, spec, target, body, frame, carried, idx, seq_only=frozenset()):
        """fold rule (DESIGN 2.3 rule 3, lemma `fold_inv`): a loop whose only loop-carried state is the
        variables `carried`, each updated by a branch-free function of (carried, element), is the fold
        of that function over the domain.  The fold is an uninterpreted function named by the
        structural text of the step, so two loops with the same step over equal domains from equal
        initial values are equal; nothing else is known about it except `fold(step, [], init) = init`."""
        from . import lib
        import hashlib

        if spec.key[0] != "seq":
            raise Unsupported("fold over a non-sequence domain")
        inits = []
        kinds = []
        for n in carried:
            v = frame.lookup(n)
            sq = None
            if isinstance(v, (GenVal, LazyGen, list)) or lib.as_iterator(self, v) is not None:
                sq = lib.seq_of(self, v)
            elif S.is_term(v) and n not in seq_only and lib._known(self, Py.is_list(v)):
                inits.append(z3.simplify(Py.items(v)))  # a list value: carried as a list (methods, `in`, iteration)
                kinds.append("list")
                continue
            elif S.is_term(v) and lib._known(self, z3.Or(Py.is_list(v), Py.is_tuple(v))):
                sq = z3.simplify(S.seq_items(v))  # an iterable that is only iterated: its item sequence
            if sq is not None:
                inits.append(sq)
                kinds.append("seq")
            else:
                inits.append(self.to_term(v))
                kinds.append("term")
        accs = [z3.Const(f"acc!{self.loop_depth}!{k}", Py if kinds[k] == "term" else S.SeqPy) for k in range(len(carried))]
        # element invariants of sequence-valued accumulators: what is registered for the initial value
        # is assumed of the accumulator inside the step (induction hypothesis) and must be derivable
        # for the step's result (checked below), then holds of the fold
        known_preds = [lib.MATCH_RECORD]  # (always a candidate: what selectors and queries yield)
        for _, f in getattr(self, "elem_facts", []):
            if f not in known_preds:
                known_preds.append(f)
        acc_facts = [[f for f in known_preds if lib.derives_elem_fact(self, inits[k], f)] if kinds[k] != "term" else [] for k in range(len(carried))]
        if os.environ.get("PYVC_DEBUG_FOLD"):
            print("[fold facts]", carried, kinds, [len(x) for x in acc_facts], [str(z3.simplify(i))[:120].replace("\n", " ") for i in inits], len(known_preds), file=sys.stderr)
        saved_elem_facts = list(getattr(self, "elem_facts", []))
        self.elem_facts = saved_elem_facts + [(accs[k], f) for k in range(len(carried)) for f in acc_facts[k]]

        def thunk(fr):
            self.assume(spec.bound(idx))
            self.index_terms.append(idx)
            self.sub_pc_start = len(self.pc)
            for n, a, kd in zip(carried, accs, kinds):
                fr.vars[n] = GenVal([("yieldfrom", a)]) if kd == "seq" else (Py.list(a) if kd == "list" else a)
            self.assign(target, spec.elem(idx), fr)
            ctrl = self.exec_block(body, fr)
            if ctrl is not None and ctrl[0] != "continue":
                raise Unsupported("early exit from a fold loop")
            outs = []
            for n, kd in zip(carried, kinds):
                v = fr.vars[n]
                if isinstance(v, LazyGen):
                    # a generator expression carried into the next iteration is evaluated later, with the
                    # values its free variables have THEN (late binding): not a function of this step
                    free = {x.id for x in ast.walk(v.node) if isinstance(x, ast.Name) and isinstance(x.ctx, ast.Load)}
                    rebound = (_assigned_names(body) | _target_names(target)) & free
                    f = v.frame
                    own = False
                    while f is not None:
                        own = own or f is fr
                        f = f.closure
                    if own and rebound:
                        raise Unsupported(f"a generator expression carried across iterations closes over {sorted(rebound)}, rebound by the loop (late binding)")
                if kd == "seq":
                    sq = lib.seq_of(self, v)
                    if sq is None:
                        raise Unsupported("fold step result is not a sequence")
                    outs.append(sq)
                elif kd == "list":
                    t = self.to_term(v)
                    if not lib._known(self, Py.is_list(t)):
                        raise _NotAList(n)
                    outs.append(z3.simplify(Py.items(t)))
                else:
                    outs.append(self.to_term(v))
            self.trace.append(("foldout", outs))
            return None

        try:
            alts = self.explore_sub(frame, thunk)
        except _NotAList as e:
            # a variable that starts as a list and is rebound to some other iterable (an iterator, a
            # generator): carried as the sequence of its items
            self.elem_facts = saved_elem_facts
            return self.fold_loop(spec, target, body, frame, carried, idx, seq_only=frozenset(seq_only) | {e.args[0]})
        # a step that raises on some path (and has done nothing else on it) is allowed for an accumulator that
        # is only appended to: the loop is then the comprehension `[g(x) for x in xs]` whose element expression
        # raises under the same condition - the raising alternative becomes part of the collection's identity,
        # exactly as for a comprehension (see lib.seq_of / collect_loop)
        raising = [a for a in alts if a["exit"][0] == "raise" and not a["trace"]]
        alts = [a for a in alts if not (a["exit"][0] == "raise" and not a["trace"])]
        refusal = None
        for a in alts:
            if a["exit"][0] != "next" or len(a["trace"]) != 1 or a["trace"][0][0] != "foldout":
                what = a["exit"][0] if a["exit"][0] != "next" else "effects " + ",".join(str(x[0]) for x in a["trace"][:-1])
                raise Unsupported(f"fold step must be effect-free and end normally on every path (carried {carried}: {what} {a['exit'][1] if len(a['exit']) > 1 else ''})"[:300])
        if raising:
            a = raising[0]
            refusal = Unsupported(f"fold step must be effect-free and end normally on every path (carried {carried}: raise {a['exit'][1] if len(a['exit']) > 1 else ''})"[:300])
            if not alts or not (len(carried) == 1 and kinds[0] in ("seq", "list")) or any(_mentions(d, accs[0]) for r in raising for d in r["decisions"]):
                raise refusal
        # an accumulator that is only appended to is a collection (lemma foldl_append in lemmas/Rules.lean:
        # foldl (fun acc x => acc ++ g x) init xs = init ++ xs.flatMap g): the same abstraction as the
        # comprehension that builds the list in one expression
        if len(carried) == 1 and kinds[0] in ("seq", "list"):
            rests = []
            for a in alts:
                rest = _appended_only(a["trace"][0][1][0], accs[0])
                if rest is None or any(_mentions(d, accs[0]) for d in a["decisions"]):
                    if os.environ.get("PYVC_DEBUG_FOLD"):
                        print("[append-only? no]", carried, rest is None, [str(z3.simplify(d))[:200].replace("\n", " ") for d in a["decisions"] if _mentions(d, accs[0])], str(z3.simplify(a["trace"][0][1][0]))[:200].replace("\n", " "), file=sys.stderr)
                    rests = None
                    break
                rests.append(rest)
            if rests is not None:
                def _item(r):
                    if z3.is_app(r) and r.decl().kind() == z3.Z3_OP_SEQ_UNIT:
                        return ("yield", r.arg(0))  # append(x): the same item a comprehension's element gives
                    return ("yieldfrom", r)

                alts2 = [
                    {"pc": list(a["pc"]), "decisions": list(a["decisions"]), "trace": ([_item(r) if raising else ("yieldfrom", r)] if r is not None else []), "exit": ("next",)}
                    for a, r in zip(alts, [None if (z3.is_app(r) and r.decl().kind() == z3.Z3_OP_SEQ_EMPTY) else r for r in rests])
                ] + [{"pc": list(a["pc"]), "decisions": list(a["decisions"]), "trace": [], "exit": a["exit"]} for a in raising]
                collected = lib.collect_loop(self, ("loop", spec, idx, alts2))
                val = z3.Concat(inits[0], collected)
                self.assumed.append("rule:fold(append-only accumulator = collected sequence)")
                self.elem_facts = [(q, f) for (q, f) in getattr(self, "elem_facts", []) if not any(z3.eq(q, a) for a in accs)]
                for fct in acc_facts[0]:
                    self.elem_facts = getattr(self, "elem_facts", []) + [(val, fct)]
                n = carried[0]
                frame.vars[n] = GenVal([("yieldfrom", val)]) if kinds[0] == "seq" else Py.list(val)
                for nm in (_assigned_names(body) | _target_names(target)) - set(carried):
                    frame.vars[nm] = Poison(nm)
                return None
        if refusal is not None:
            raise refusal
        # one function of (carried, element): the alternatives are merged by their branch conditions
        alts.sort(key=lambda a: "&".join(sorted(S.canon_text(d) for d in a["decisions"])))
        outs = list(alts[-1]["trace"][0][1])
        for a in reversed(alts[:-1]):
            cond = z3.And(*a["decisions"]) if a["decisions"] else z3.BoolVal(True)
            outs = [z3.If(cond, x, y) for x, y in zip(a["trace"][0][1], outs)]
        for k in range(len(carried)):
            for f in acc_facts[k]:
                if not lib.derives_elem_fact(self, outs[k], f):
                    raise Unsupported(f"element invariant of the accumulator {carried[k]!r} is not derivable for the step's result")
        self.elem_facts = [(q, f) for (q, f) in getattr(self, "elem_facts", []) if not any(z3.eq(q, a) for a in accs)]
        txt = "|".join(S.canon_text(o) for o in outs) + "@" + ",".join(kinds)
        h = hashlib.sha1(txt.encode()).hexdigest()[:10]
        if os.environ.get("PYVC_DEBUG_FOLD"):
            print(f"[fold {h}] {txt}", file=sys.stderr)
        # the same step written differently: a step already met (by the other side of the comparison,
        # typically) that is provably the same function of (accumulator, element) under what is known
        # on this path gives the same fold - decided by the solver, not by the text
        step_facts = [c for a in alts for c in a["pc"] if not any(z3.eq(c, d) for d in a["decisions"])] if len(alts) == 1 else []
        if h not in FOLD_REGISTRY:
            for h0, (kinds0, accs0, idx0, outs0) in FOLD_REGISTRY.items():
                if len(outs0) != len(outs) or any(a.sort() != b.sort() for a, b in zip(accs0, accs)):
                    continue
                sub = [(a0, a1) for a0, a1 in zip(accs0, accs)] + [(idx0, idx)]
                same = z3.And(*[z3.substitute(o0, *sub) == o1 for o0, o1 in zip(outs0, outs)])
                q = z3.Solver()
                q.set("timeout", 5000)
                for c in self.pc:
                    q.add(c)
                q.add(spec.bound(idx))
                for c in step_facts:
                    q.add(c)
                for k in range(len(carried)):
                    j = z3.Int("j!inv")
                    for f in acc_facts[k]:
                        q.add(z3.ForAll([j], z3.Implies(z3.And(j >= 0, j < z3.Length(accs[k])), f(accs[k][j]))))
                q.add(z3.Not(same))
                self.solver_calls += 1
                rq = q.check()
                if os.environ.get("PYVC_DEBUG_FOLD"):
                    print(f"[fold match {h} ~ {h0}] {rq}", file=sys.stderr)
                    if rq == z3.sat:
                        m = q.model()
                        for o0, o1 in zip(outs0, outs):
                            print("   old:", str(z3.simplify(z3.substitute(o0, *sub)))[-700:].replace("\n", " "), file=sys.stderr)
                            print("   new:", str(z3.simplify(o1))[-700:].replace("\n", " "), file=sys.stderr)
                if rq == z3.unsat:
                    h = h0
                    break
        if h not in FOLD_REGISTRY:
            FOLD_REGISTRY[h] = (list(kinds), list(accs), idx, list(outs))
        self.assumed.append(f"rule:fold(loop step {h})")
        for k, (n, kd) in enumerate(zip(carried, kinds)):
            sorts = [S.SeqPy] + [i.sort() for i in inits]
            f = z3.Function(f"loopfold!{h}!{k}", *sorts, Py if kd == "term" else S.SeqPy)
            val = f(spec.key[1], *inits)
            self.assume(z3.Implies(z3.Length(spec.key[1]) == 0, val == inits[k]))
            for fct in acc_facts[k]:
                self.elem_facts = getattr(self, "elem_facts", []) + [(val, fct)]
            frame.vars[n] = GenVal([("yieldfrom", val)]) if kd == "seq" else (Py.list(val) if kd == "list" else val)
        for n in (_assigned_names(body) | _target_names(target)) - set(carried):
            frame.vars[n] = Poison(n)

    # ---- expressions

    def eval(self, e, frame):  # noqa: PLR0911, PLR0912
        m = getattr(self, "ex_" + type(e).__name__, None)
        if m is None:
            raise Unsupported(f"expression {type(e).__name__} (line {getattr(e, 'lineno', '?')})")
        return m(e, frame)

    def eval_index(self, e, frame):
        if isinstance(e, ast.Slice):
            f = lambda x: self.eval(x, frame) if x is not None else S.NONE  # noqa: E731
            return SliceVal(f(e.lower), f(e.upper), f(e.step))
        return self.eval(e, frame)

    def ex_Constant(self, e, frame):
        v = e.value
        if v is Ellipsis:
            raise Unsupported("Ellipsis")
        if isinstance(v, bytes):
            raise Unsupported("bytes literal")
        return self.to_term(v)

    def ex_Name(self, e, frame):
        return self.lookup_name(e.id, frame)

    def ex_Attribute(self, e, frame):
        return self.getattr(self.eval(e.value, frame), e.attr)

    def ex_Tuple(self, e, frame):
        return self.to_term(tuple(self.eval_elts(e.elts, frame)))

    def ex_List(self, e, frame):
        elts = self.eval_elts(e.elts, frame)
        t = self.to_term(list(elts))
        if elts and all(S.is_term(x) for x in elts):
            # a list display of JSON values is a JSON value (the hereditary flag is uninterpreted)
            self.assume(z3.Implies(z3.And(*[S.json_value(x) for x in elts]), S.isjson(t)))
        return t

    def eval_elts(self, elts, frame):
        from . import lib

        out = []
        for x in elts:
            if isinstance(x, ast.Starred):
                seq = lib.iterate(self, self.eval(x.value, frame))
                if not isinstance(seq, list):
                    raise Unsupported("starred symbolic sequence")
                out.extend(seq)
            else:
                out.append(self.eval(x, frame))
        return out

    def ex_Dict(self, e, frame):
        ks, vs = [], []
        for k, v in zip(e.keys, e.values):
            if k is None:
                raise Unsupported("dict unpacking")
            ks.append(self.to_term(self.eval(k, frame)))
            vs.append(self.to_term(self.eval(v, frame)))
        return Py.dict(S.mk_seq(ks), S.mk_seq(vs))

    def ex_JoinedStr(self, e, frame):
        from . import lib

        parts = []
        for v in e.values:
            if isinstance(v, ast.Constant):
                parts.append(z3.StringVal(v.value))
            else:
                if v.format_spec is not None:
                    raise Unsupported("format spec")
                x = self.eval(v.value, frame)
                if v.conversion == ord("r"):
                    parts.append(lib.py_repr(self, x))
                else:
                    parts.append(lib.py_str(self, x))
        if not parts:
            return S.mk_str("")
        return Py.str(z3.Concat(*parts) if len(parts) > 1 else parts[0])

    def ex_BoolOp(self, e, frame):
        is_and = isinstance(e.op, ast.And)
        v = None
        for i, x in enumerate(e.values):
            v = self.eval(x, frame)
            if i == len(e.values) - 1:
                return v
            t = self.branch(self.truth(v))
            if is_and and not t:
                return v
            if not is_and and t:
                return v
        return v

    def ex_UnaryOp(self, e, frame):
        from . import lib

        v = self.eval(e.operand, frame)
        if isinstance(e.op, ast.Not):
            t = self.truth(v)
            return S.mk_bool(z3.Not(t) if not isinstance(t, bool) else (not t))
        if isinstance(e.op, ast.USub):
            return lib.binop(self, ast.Sub(), S.mk_int(0), v)
        raise Unsupported(f"unary {type(e.op).__name__}")

    def ex_BinOp(self, e, frame):
        from . import lib

        return lib.binop(self, e.op, self.eval(e.left, frame), self.eval(e.right, frame))

    def ex_Compare(self, e, frame):
        from . import lib

        left = self.eval(e.left, frame)
        result = None
        for op, r in zip(e.ops, e.comparators):
            right = self.eval(r, frame)
            c = lib.compare(self, op, left, right)
            if len(e.ops) == 1:
                return c
            if not self.branch(self.truth(c)):
                return S.FALSE
            result = c
            left = right
        return result

    def ex_IfExp(self, e, frame):
        if self.branch(self.truth(self.eval(e.test, frame))):
            return self.eval(e.body, frame)
        return self.eval(e.orelse, frame)

    def ex_Call(self, e, frame):
        from . import lib

        if isinstance(e.func, ast.Name) and e.func.id == "super" and not frame.has("super"):
            f = frame
            while f is not None and (f.func is None or f.func.owner is None):
                f = f.closure
            if f is None:
                raise Unsupported("super() outside a method")
            first = f.func.node.args.args[0].arg
            return SuperProxy(f.vars[first], f.func.owner)
        box = None
        if isinstance(e.func, ast.Attribute):
            recv = self.eval(e.func.value, frame)
            box = lib.box_of(self, recv)
            if box is not None:
                fn = lib.term_attr(self, box.fields["v"], e.func.attr)
            else:
                fn = self.getattr(recv, e.func.attr)
        else:
            fn = self.eval(e.func, frame)
        args = self.eval_elts(e.args, frame)
        kwargs = {}
        for k in e.keywords:
            if k.arg is None:
                raise Unsupported("**kwargs call")
            kwargs[k.arg] = self.eval(k.value, frame)
        if isinstance(fn, Builtin) and getattr(fn, "mutator", False):
            new = fn.fn(self, args, kwargs)
            old = box.fields["v"] if box is not None else None
            if old is None and S.is_term(recv):
                old = recv
            for a_ in args:
                if S.is_term(a_) and old is not None:
                    self.assume(z3.Implies(z3.And(S.isjson(old), S.json_value(a_)), S.isjson(new)))
            lib.store_back(self, box, e.func.value, frame, new)
            return S.NONE
        return self.call(fn, args, kwargs)

    def ex_Subscript(self, e, frame):
        from . import lib

        return lib.getitem(self, self.eval(e.value, frame), self.eval_index(e.slice, frame))

    def ex_Await(self, e, frame):
        return self.eval(e.value, frame)  # DESIGN 3.6

    def ex_Yield(self, e, frame):
        v = self.eval(e.value, frame) if e.value is not None else S.NONE
        self.trace.append(("yield", self.to_term(v) if not isinstance(v, SymObj) or True else v))
        return S.NONE

    def ex_YieldFrom(self, e, frame):
        from . import lib

        v = self.eval(e.value, frame)
        lib.yield_from(self, v)
        return S.NONE

    def ex_Lambda(self, e, frame):
        fn = ast.FunctionDef(
            name="<lambda>", args=e.args, body=[ast.Return(value=e.body)], decorator_list=[], lineno=e.lineno, col_offset=0
        )
        return FuncVal(fn, frame.func.module if frame.func else None, "<lambda>", closure=frame)

    def ex_ListComp(self, e, frame):
        from . import lib

        return lib.comprehension(self, e, frame, "list")

    def ex_GeneratorExp(self, e, frame):
        first = self.eval(e.generators[0].iter, frame)
        return LazyGen(e, frame, first)

    def ex_DictComp(self, e, frame):
        from . import lib

        return lib.comprehension(self, e, frame, "dict")

    def ex_SetComp(self, e, frame):
        raise Unsupported("set comprehension")

    def ex_Starred(self, e, frame):
        raise Unsupported("starred expression")

    def ex_NamedExpr(self, e, frame):
        v = self.eval(e.value, frame)
        frame.vars[e.target.id] = v
        return v


def _mentions(t, const):
    seen = set()
    stack = [t]
    while stack:
        e = stack.pop()
        if e.get_id() in seen:
            continue
        seen.add(e.get_id())
        if z3.eq(e, const):
            return True
        if z3.is_app(e):
            stack.extend(e.arg(i) for i in range(e.num_args()))
    return False


def _appended_only(out, acc):
    """out == acc ++ rest with rest not mentioning acc -> rest (Empty when out is acc itself); else None."""
    o = z3.simplify(out)
    if z3.eq(o, acc):
        return z3.Empty(acc.sort())
    if z3.is_app(o) and o.decl().kind() == z3.Z3_OP_SEQ_CONCAT and o.num_args() >= 2 and z3.eq(o.arg(0), acc):
        rest = [o.arg(i) for i in range(1, o.num_args())]
        r = rest[0] if len(rest) == 1 else z3.Concat(*rest)
        return None if _mentions(r, acc) else r
    if z3.is_app(o) and o.decl().kind() == z3.Z3_OP_ITE and not _mentions(o.arg(0), acc):
        x, y = _appended_only(o.arg(1), acc), _appended_only(o.arg(2), acc)
        if x is not None and y is not None:
            return z3.If(o.arg(0), x, y)
    return None


def _fkey(fv):
    mod = fv.module.__name__ if fv.module is not None else "?"
    return f"{mod}:{fv.qualname}"


def _mro_dict(cls):
    d = {}
    for k in reversed(cls.__mro__):
        if k is object:
            continue
        d.update(k.__dict__)
    return d


def _load(target):
    import copy

    t = copy.deepcopy(target)
    for n in ast.walk(t):
        if hasattr(n, "ctx"):
            n.ctx = ast.Load()
    return t


def _target_names(t):
    return {n.id for n in ast.walk(t) if isinstance(n, ast.Name)}


def _comprehension_targets(node):
    """The Name nodes bound by comprehensions inside `node`: they live in the comprehension's own scope."""
    out = set()
    for n in ast.walk(node):
        if isinstance(n, ast.comprehension):
            out |= {id(m) for m in ast.walk(n.target) if isinstance(m, ast.Name)}
    return out


_MUTATORS = {"append", "extend", "insert", "pop", "remove", "clear", "sort", "reverse", "update", "setdefault", "add", "discard", "popitem", "appendleft", "extendleft"}


def _assigned_names(body):
    """Names (re)bound in the statements - including local containers changed in place: a mutator method
    called on a name (`xs.append(v)`) or a store through it (`d[k] = v`, `del d[k]`) rebinds the name in
    this interpreter (containers are values), so for the loop rules it is an assignment that reads the
    previous value."""
    out = set()
    for s in body:
        inner = _comprehension_targets(s)
        for n in ast.walk(s):
            if isinstance(n, ast.Name) and isinstance(n.ctx, ast.Store) and id(n) not in inner:
                out.add(n.id)
            elif isinstance(n, ast.Call) and isinstance(n.func, ast.Attribute) and n.func.attr in _MUTATORS and isinstance(n.func.value, ast.Name):
                out.add(n.func.value.id)
            elif isinstance(n, ast.Subscript) and isinstance(n.ctx, (ast.Store, ast.Del)) and isinstance(n.value, ast.Name):
                out.add(n.value.id)
    return out


def _loop_carried(body, target):
    """Names read in the body before being (re)assigned in the same iteration while also
    being assigned somewhere in the body: a conservative syntactic test for loop-carried state.
    """
    assigned = _assigned_names(body)
    tnames = _target_names(target)
    carried = set()
    defined = set(tnames)

    def reads(node):
        return {n.id for n in ast.walk(node) if isinstance(n, ast.Name) and isinstance(n.ctx, ast.Load)}

    def scan(stmts, defined):
        for s in stmts:
            if isinstance(s, (ast.Assign, ast.AnnAssign, ast.AugAssign)):
                val = s.value
                r = reads(val) if val is not None else set()
                if isinstance(s, ast.AugAssign):
                    r |= _target_names(s.target)
                carried.update((r & assigned) - defined)
                tg = s.targets if isinstance(s, ast.Assign) else [s.target]
                for t in tg:
                    if isinstance(t, ast.Name):
                        defined.add(t.id)
                    else:
                        carried.update((reads(t) & assigned) - defined)
                        defined.update(_target_names(t) if isinstance(t, (ast.Tuple, ast.List)) else set())
            elif isinstance(s, (ast.Expr, ast.Delete)):
                # an in-place change of a local container reads its previous value
                carried.update((reads(s) & assigned) - defined)
            elif isinstance(s, ast.If):
                carried.update((reads(s.test) & assigned) - defined)
                d1, d2 = set(defined), set(defined)
                scan(s.body, d1)
                scan(s.orelse, d2)
                defined |= d1 & d2
            elif isinstance(s, (ast.For, ast.AsyncFor)):
                carried.update((reads(s.iter) & assigned) - defined)
                d1 = set(defined) | _target_names(s.target)
                scan(s.body, d1)
            elif isinstance(s, ast.Try):
                d1 = set(defined)
                scan(s.body, d1)
                for h in s.handlers:
                    scan(h.body, set(defined))
                # a name bound in the try body is bound afterwards on every path that continues
                # normally through the body; handlers that fall through are covered by Python's own
                # UnboundLocalError semantics (not modelled: such code is rejected below)
                if all(h.body and isinstance(h.body[-1], (ast.Raise, ast.Return, ast.Continue)) for h in s.handlers):
                    defined |= d1
            elif isinstance(s, ast.With):
                for it in s.items:
                    carried.update((reads(it.context_expr) & assigned) - defined)
                scan(s.body, set(defined))
            else:
                carried.update((reads(s) & assigned) - defined)

    scan(body, defined)
    return carried

"""Library model: ASSUMED contracts of Python builtins and the stdlib functions the code uses.

Every function here is a transcription of documented CPython behaviour over the `Py` sort
(values and raise-conditions).  They are the trusted base of every proof and are compared with
the real builtins on a concrete universe by `monitors/libcheck.py` on every run.
"""
from __future__ import annotations

import ast
import builtins
import collections
import collections.abc as cabc
import contextlib
import copy as _copy
import functools
import io
import itertools
import operator
import os
import sys
import re
import hashlib

import z3

from . import sorts as S
from .interp import (
    BoundMethod,
    Builtin,
    ClassVal,
    ExcVal,
    Frame,
    FuncVal,
    GenVal,
    GhostChildren,
    IterSpec,
    LazyGen,
    ModuleVal,
    PyRaise,
    RangeVal,
    SliceVal,
    SymObj,
    Unsupported,
    lookup_function,
)
from .sorts import Py

INT = z3.IntSort()
STR = z3.StringSort()

# uninterpreted library functions
seq_contains_py = z3.Function("seq_contains_py", S.SeqPy, Py, z3.BoolSort())
py_lt_other = z3.Function("py_lt_other", Py, Py, z3.BoolSort())
deepcopy_of = z3.Function("deepcopy_of", Py, Py)
re_fullmatch = z3.Function("re_fullmatch", Py, STR, z3.BoolSort())
re_search = z3.Function("re_search", Py, STR, z3.BoolSort())
str_lower = z3.Function("str_lower", STR, STR)
str_lstrip = z3.Function("str_lstrip", STR, STR)
str_strip = z3.Function("str_strip", STR, STR)
str_split = z3.Function("str_split", STR, STR, S.SeqPy)
str_join = z3.Function("str_join", STR, S.SeqPy, STR)
json_loads = z3.Function("json_loads", STR, Py)
json_ok = z3.Function("json_ok", STR, z3.BoolSort())
unicode_unescape = z3.Function("unicode_unescape", STR, STR)
uri_unquote = z3.Function("uri_unquote", STR, STR)
int_and = z3.Function("int_and", INT, INT, INT)


def is_box_cls(cls):
    """Mutable containers on the heap: list / dict objects and objects of their subclasses (field `v`
    holds the current content)."""
    return cls in (list, dict) or (isinstance(cls, type) and issubclass(cls, (list, dict)))


def is_plain_box_cls(cls):
    return cls in (list, dict)


class PyIterator:
    """Marker class of modelled iterator objects: field `rest` = the items still to be produced.

    ASSUMED contracts (itertools / collections docs), valid when the underlying iterator is not
    advanced by anybody else (ownership precondition of Query, DESIGN C12):
      iter(list) -> iterator over its items;  next(it[, d]) -> pops the first item
      islice(it, n) / islice(it, a, b) -> consumes and yields it[a:b] (taken eagerly: equal under ownership)
      deque(it, maxlen=n) -> the last n items (all consumed);  tee(it, n) -> n independent copies
    """


def new_iterator(it, rest):
    return it.alloc(PyIterator, {"rest": rest}, origin="FRESH")


def as_iterator(it, v):
    if isinstance(v, SymObj) and v.cls is PyIterator:
        return v
    if S.is_term(v):
        o = it.deref(v)
        if isinstance(o, SymObj) and o.cls is PyIterator:
            return o
    return None


def unbox(it, v):
    """Box (mutable container object) -> its current content term."""
    if isinstance(v, IterSpec) and v.term is not None:
        return v.term
    if isinstance(v, SymObj) and is_box_cls(v.cls):
        return v.fields["v"]
    if S.is_term(v):
        o = it.deref(v)
        if isinstance(o, SymObj) and is_box_cls(o.cls):
            return o.fields["v"]
    return v


def box_of(it, v):
    if isinstance(v, SymObj) and is_box_cls(v.cls):
        return v
    if S.is_term(v):
        o = it.deref(v)
        if isinstance(o, SymObj) and is_box_cls(o.cls):
            return o
    return None


def T(it, v):
    """value -> Py term with boxes read through."""
    return it.to_term(unbox(it, v))


# --------------------------------------------------------------------------- builtins table


def _b(name):
    def deco(fn):
        return Builtin(name, fn)

    return deco


def _len(it, a, k):
    v = T(it, a[0])
    if not it.branch(S.has_len(v)):
        it.raise_(TypeError, "object has no len()")
    it.assume(z3.Length(Py.keys(v)) == z3.Length(Py.vals(v))) if False else None
    return Py.int(S.py_len(v))


def class_kind_pred(it, v, cls):
    """z3 Bool: isinstance(v, cls) for a value term."""
    if cls in (cabc.Mapping, cabc.MutableMapping, dict):
        return Py.is_dict(v)
    if cls is cabc.Sequence:
        return S.is_sequence(v)
    if cls in (cabc.MutableSequence, list):
        return z3.Or(Py.is_list(v), Py.is_nodelist(v))
    if cls is str:
        return Py.is_str(v)
    if cls is bool:
        return Py.is_bool(v)
    if cls is int:
        return S.is_intlike(v)
    if cls is float:
        return Py.is_float(v)
    if cls is tuple:
        return Py.is_tuple(v)
    if cls is type(None):
        return Py.is_none(v)
    if cls.__name__ == "Decimal":
        return z3.BoolVal(False)
    if cls is io.IOBase:
        return z3.BoolVal(False)  # ASSUMED: data arguments are not file objects (load_data has its own check)
    if cls in (re.Pattern,):
        return Py.is_pattern(v)
    if cls.__name__ == "NodeList" and cls.__module__.startswith("jsonpath"):
        return Py.is_nodelist(v)
    if cls.__name__ == "JSONPathMatch":
        return Py.is_match(v)
    if cls.__name__ == "_Undefined" and cls.__module__ == "jsonpath.filter":
        return Py.is_undef(v)
    return None


_BUILTIN_CLASSES = {"list": list, "tuple": tuple, "dict": dict, "str": str, "int": int, "bool": bool}


def _as_class(it, x):
    if isinstance(x, ClassVal):
        return x.cls
    if isinstance(x, Builtin) and x.name in _BUILTIN_CLASSES:
        return _BUILTIN_CLASSES[x.name]
    if S.is_term(x):
        return _as_class(it, it.deref(x)) if it.deref(x) is not None else None
    return None


def isinstance_model(it, v, spec):
    classes = []
    if _as_class(it, spec) is not None:
        classes = [_as_class(it, spec)]
    elif isinstance(spec, ClassVal):
        classes = [spec.cls]
    elif S.is_term(spec):
        o = it.deref(spec)
        if isinstance(o, ClassVal):
            classes = [o.cls]
        else:
            t = z3.simplify(spec)
            if t.decl().name() != "tuple":
                raise Unsupported("isinstance class spec")
            n = z3.simplify(z3.Length(Py.titems(t)))
            for i in range(n.as_long()):
                o = _as_class(it, z3.simplify(Py.titems(t)[i]))
                if o is None:
                    raise Unsupported("isinstance class tuple element")
                classes.append(o)
    else:
        raise Unsupported("isinstance spec")
    if isinstance(v, SymObj) and not is_plain_box_cls(v.cls):
        return any(issubclass(v.cls, c) for c in classes)
    if isinstance(v, ExcVal):
        return any(issubclass(v.cls, c) for c in classes)
    if isinstance(v, (FuncVal, BoundMethod, Builtin, ClassVal, SliceVal, GenVal, LazyGen)):
        return False
    if S.is_term(v):
        o = it.deref(v)
        if isinstance(o, SymObj) and not is_plain_box_cls(o.cls):
            return any(issubclass(o.cls, c) for c in classes)  # (before reading through: an object of a dict / list subclass)
    vt = T(it, v)
    o = it.deref(vt)
    if isinstance(o, SymObj) and not is_plain_box_cls(o.cls):
        return any(issubclass(o.cls, c) for c in classes)
    preds = []
    for c in classes:
        p = class_kind_pred(it, vt, c)
        if p is None:
            # a jsonpath class: value terms are never instances unless they are heap objects
            if z3.simplify(Py.is_obj(vt)) is not None and not it.branch(Py.is_obj(vt)):
                p = z3.BoolVal(False)
            else:
                raise Unsupported(f"isinstance(<unknown object>, {c.__name__})")
        preds.append(p)
    return z3.Or(*preds) if len(preds) > 1 else preds[0]


def _isinstance(it, a, k):
    r = isinstance_model(it, a[0], a[1])
    return S.mk_bool(r)


def py_str(it, v):
    """z3 String for Python str(v)."""
    if isinstance(v, SymObj):
        if "__str__" in _mro_names(v.cls):
            r = it.call_method(v, "__str__", [])
            return Py.s(it.to_term(r))
        raise Unsupported(f"str() of {v.cls.__name__}")
    if isinstance(v, ExcVal):
        owner, attr = it.find_method(v.cls, "__str__")
        if owner is not None and owner.__module__.startswith("jsonpath"):
            fv = lookup_function(attr)
            fv.owner = owner
            return Py.s(it.to_term(it.run_function(fv, [v], {})))
        return exc_base_str(it, v)
    t = T(it, v)
    o = it.deref(t)
    if isinstance(o, SymObj) and not is_box_cls(o.cls):
        return py_str(it, o)
    return S.py_str(t)


def exc_base_str(it, v):
    """BaseException.__str__: '' / str(arg0) / str(args)."""
    if len(v.args) == 0:
        return z3.StringVal("")
    if len(v.args) == 1:
        if v.cls is KeyError or (issubclass(v.cls, KeyError) and True):
            # KeyError.__str__ is repr(arg) for one argument
            return py_repr(it, v.args[0])
        return py_str(it, v.args[0])
    return S.py_str_of(it.to_term(tuple(v.args)))


def py_repr(it, v):
    t = T(it, v)
    return S.py_repr_of(t)


def _str(it, a, k):
    if not a:
        return S.mk_str("")
    return Py.str(py_str(it, a[0]))


def _repr(it, a, k):
    return Py.str(py_repr(it, a[0]))


# Language accepted by int(str): optional blanks, sign, digits with single underscores.
# ASCII fragment + a representative block of non-ASCII decimal digits (Arabic-Indic, fullwidth).
_WS = z3.Union(*[z3.Re(c) for c in " \t\n\r\x0b\x0c"])
_UDIGIT = z3.Union(S.DIGIT, z3.Range("٠", "٩"), z3.Range("０", "９"))
RE_PYINT = z3.Concat(
    z3.Star(_WS),
    z3.Option(z3.Union(z3.Re("+"), z3.Re("-"))),
    _UDIGIT,
    z3.Star(z3.Concat(z3.Option(z3.Re("_")), _UDIGIT)),
    z3.Star(_WS),
)
RE_CANON_INT = z3.Concat(z3.Option(z3.Re("-")), S.RE_DIGITS)


def str_to_int_value(s):
    """int(s) for s in the int() language: exact on plain decimals, uninterpreted otherwise."""
    neg = z3.PrefixOf(z3.StringVal("-"), s)
    body = z3.If(neg, z3.SubString(s, 1, z3.Length(s) - 1), s)
    return z3.If(
        z3.InRe(s, RE_CANON_INT),
        z3.If(neg, -z3.StrToInt(body), z3.StrToInt(body)),
        S.py_int_of_str(s),
    )


def _int(it, a, k):
    if not a:
        return S.mk_int(0)
    v = T(it, a[0])
    if it.branch(S.is_intlike(v)):
        return Py.int(S.intval(v))
    if it.branch(Py.is_str(v)):
        s = Py.s(v)
        if it.branch(z3.InRe(s, RE_PYINT)):
            return Py.int(str_to_int_value(s))
        it.raise_(ValueError, "invalid literal for int()")
    if it.branch(Py.is_float(v)):
        return Py.int(z3.ToInt(Py.r(v)) + z3.If(z3.And(Py.r(v) < 0, z3.ToReal(z3.ToInt(Py.r(v))) != Py.r(v)), 1, 0))
    it.raise_(TypeError, "int() argument must be a string or a number")


def _bool(it, a, k):
    if not a:
        return S.FALSE
    return S.mk_bool(it.truth(unbox(it, a[0])))


def _abs(it, a, k):
    v = T(it, a[0])
    if it.branch(S.is_intlike(v)):
        n = S.intval(v)
        return Py.int(z3.If(n >= 0, n, -n))
    raise Unsupported("abs of non-int")


def _minmax(is_min):
    def f(it, a, k):
        if len(a) != 2:
            raise Unsupported("min/max arity")
        x, y = T(it, a[0]), T(it, a[1])
        if not it.branch(z3.And(S.is_intlike(x), S.is_intlike(y))):
            raise Unsupported("min/max of non-ints")
        p, q = S.intval(x), S.intval(y)
        return Py.int(z3.If(p <= q, p, q) if is_min else z3.If(p >= q, p, q))

    return f


def seq_of(it, v):
    """iterable value -> Seq term of its elements (or None)."""
    io = as_iterator(it, v)
    if io is not None:
        rest = io.fields["rest"]
        io.fields["rest"] = S.EmptySeq
        return rest
    v = unbox(it, v)
    if isinstance(v, LazyGen):
        v = run_genexp(it, v)
    if isinstance(v, GenVal):
        if v.pending_exc is not None:
            raise PyRaise(v.pending_exc)
        parts = []
        for item in v.items:
            if item[0] == "yield":
                parts.append(z3.Unit(item[1]))
            elif item[0] == "yieldfrom":
                parts.append(item[1])
            elif item[0] in ("effect", "write"):
                it.trace.append(item)
            elif item[0] == "loop":
                parts.append(collect_loop(it, item))
            else:
                return None
        if not parts:
            return S.EmptySeq
        return z3.Concat(*parts) if len(parts) > 1 else parts[0]
    if isinstance(v, list):
        return S.mk_seq([it.to_term(x) for x in v])
    if isinstance(v, IterSpec):
        if v.key[0] == "seq":
            return v.key[1]
        return collect_loop(it, ("loop", v, z3.Int("i!c"), [{"pc": [], "trace": [("yield", it.to_term(v.elem(z3.Int("i!c"))))], "exit": ("next",)}]))
    if S.is_term(v):
        t = v
        if it.branch(z3.Or(Py.is_list(t), Py.is_tuple(t), Py.is_nodelist(t))):
            return items_of(it, t)
        if it.branch(Py.is_dict(t)):
            return Py.keys(t)
        if it.branch(Py.is_str(t)):
            raise Unsupported("sequence of characters of a symbolic string")
        it.raise_(TypeError, "object is not iterable")
    return None


def items_of(it, t):
    """Item sequence of a term known to be a list, tuple or node list: the accessor of its kind when
    the kind is known on this path (one canonical term), the three-way case split otherwise."""
    st = z3.simplify(S.seq_items(t))
    if z3.is_app(st) and st.decl().kind() == z3.Z3_OP_ITE:
        for pred, acc in ((Py.is_list, Py.items), (Py.is_tuple, Py.titems), (Py.is_nodelist, Py.nitems)):
            if _known(it, pred(t)):
                return z3.simplify(acc(t))
    return st


def canon_item(it, item):
    """Structural text of a trace item, used to name abstract collections."""
    k = item[0]
    if k == "yield":
        return "Y(" + S.canon_text(item[1]) + ")"
    if k == "yieldfrom":
        return "YF(" + S.canon_text(item[1]) + ")"
    if k == "loop":
        _, spec, idx, alts = item
        body = []
        for a in alts:
            body.append(
                # named by the branch conditions taken (facts assumed along the way are consequences of
                # the library's axioms, and which of them get instantiated is incidental)
                "[" + ";".join(sorted(S.canon_text(c) for c in a.get("decisions", a["pc"]))) + "=>" + ",".join(canon_item(it, x) for x in a["trace"]) + "/" + str(a["exit"][0]) + "]"
            )
        return "L(" + key_text(spec.key) + "," + str(idx) + "," + "|".join(sorted(body)) + ")"
    return str(item)


def key_text(key):
    out = []
    for x in key:
        if isinstance(x, z3.ExprRef):
            out.append(S.canon_text(x))
        elif isinstance(x, tuple):
            out.append("(" + key_text(x) + ")")
        else:
            out.append(str(x))
    return ",".join(out)


def collect_loop(it, item):
    """Abstract Seq term for the values yielded by a summarised loop.

    Named by a structural hash: two loops with the same domain and the same body text
    collect the same sequence (the foreach congruence rule, `foreach_congr` in lemmas/Rules.lean).
    """
    _, spec, idx, alts = item
    txt = canon_item(it, item)
    h = hashlib.sha1(txt.encode()).hexdigest()[:12]
    if os.environ.get("PYVC_DEBUG_FOLD"):
        print(f"[collect {h}] {txt}", file=sys.stderr)
    if (
        spec.key[0] == "seq"
        and isinstance(spec.key[1], z3.ExprRef)
        and len(alts) == 1
        and not alts[0].get("decisions", alts[0]["pc"])
        and alts[0]["exit"][0] == "next"
        and len(alts[0]["trace"]) == 1
        and alts[0]["trace"][0][0] == "yield"
        and z3.eq(z3.simplify(alts[0]["trace"][0][1]), z3.simplify(spec.key[1][idx]))
    ):
        return spec.key[1]  # `for x in s: yield x` is s
    h = _same_collection(it, h, spec, idx, alts)
    c = z3.Const(f"collect!{h}", S.SeqPy)
    # a filter (every path yields the loop's own element once, or nothing): elements of the domain
    if spec.key[0] == "seq" and isinstance(spec.key[1], z3.ExprRef):
        dom = spec.key[1]
        only_own = all(
            a["exit"][0] == "next" and (not a["trace"] or (len(a["trace"]) == 1 and a["trace"][0][0] == "yield" and z3.eq(z3.simplify(a["trace"][0][1]), z3.simplify(dom[idx]))))
            for a in alts
        )
        if only_own:
            for f in elem_facts_for(it, dom):
                it.elem_facts = getattr(it, "elem_facts", []) + [(c, f)]
    # facts: unfiltered single-yield bodies have the domain's length and known elements
    if spec.length is not None and len(alts) == 1 and not alts[0]["pc"] and len(alts[0]["trace"]) == 1 and alts[0]["trace"][0][0] == "yield":
        it.assume(z3.Length(c) == spec.length)
        y = alts[0]["trace"][0][1]
        for j in list(it.index_terms):
            it.assume(z3.Implies(z3.And(j >= 0, j < spec.length), c[j] == z3.substitute(y, (idx, j))))
    return c


COLLECT_REGISTRY = {}  # name -> (domain, index, per-element yields): the collections met while verifying one contract


def _per_element(alts):
    """What one iteration contributes, as a Seq term of the loop index (None: not expressible)."""
    out = None
    for a in reversed(alts):
        if a["exit"][0] != "next" or any(x[0] not in ("yield", "yieldfrom") for x in a["trace"]):
            return None
        ys = [z3.Unit(x[1]) if x[0] == "yield" else x[1] for x in a["trace"]]
        val = S.EmptySeq if not ys else (z3.Concat(*ys) if len(ys) > 1 else ys[0])
        dec = a.get("decisions", a["pc"])
        out = val if out is None else z3.If(z3.And(*dec) if dec else z3.BoolVal(True), val, out)
    return out


def _same_collection(it, h, spec, idx, alts):
    """The name of a collection already met that is provably the same one (equal domains, equal
    contribution of every element) under what is known on this path - simplification is not canonical,
    so the text alone does not decide this."""
    if spec.key[0] != "seq" or not isinstance(spec.key[1], z3.ExprRef):
        return h
    per = _per_element(alts)
    if per is None:
        return h
    if h in COLLECT_REGISTRY:
        return h
    for h0, (dom0, idx0, per0) in COLLECT_REGISTRY.items():
        q = z3.Solver()
        q.set("timeout", 3000)
        for c in it.pc:
            q.add(c)
        q.add(spec.bound(idx))
        q.add(z3.Not(z3.And(dom0 == spec.key[1], z3.substitute(per0, (idx0, idx)) == per)))
        it.solver_calls += 1
        if q.check() == z3.unsat:
            return h0
    COLLECT_REGISTRY[h] = (spec.key[1], idx, per)
    return h


def _list(it, a, k):
    if not a:
        return S.mk_list([])
    s = seq_of(it, a[0])
    if s is None:
        raise Unsupported("list() of this iterable")
    return Py.list(s)


def _tuple(it, a, k):
    if not a:
        return S.mk_tuple([])
    s = seq_of(it, a[0])
    if s is None:
        raise Unsupported("tuple() of this iterable")
    return Py.tuple(s)


def _dict(it, a, k):
    if not a and not k:
        return Py.dict(S.EmptySeq, S.EmptySeq)
    if len(a) == 1 and not k:
        t = T(it, a[0])
        if it.branch(Py.is_dict(t)):
            return t  # a copy: values are immutable terms
    raise Unsupported("dict() with arguments")


def _iter(it, a, k):
    v = a[0]
    if as_iterator(it, v) is not None:
        return as_iterator(it, v)
    if isinstance(v, (GenVal, LazyGen)):
        s_ = seq_of(it, v)
        if s_ is None:
            raise Unsupported("iter() of this generator")
        return new_iterator(it, s_)
    if isinstance(v, SymObj) and not is_box_cls(v.cls):
        if "__iter__" in _mro_names(v.cls):
            return it.call_method(v, "__iter__", [])
        it.raise_(TypeError, "object is not iterable")
    t = T(it, v)
    o = it.deref(t)
    if isinstance(o, SymObj) and not is_box_cls(o.cls):
        return _iter(it, [o], k)
    if it.branch(z3.Or(Py.is_list(t), Py.is_tuple(t), Py.is_nodelist(t))):
        return new_iterator(it, S.seq_items(t))
    if it.branch(Py.is_dict(t)):
        return new_iterator(it, Py.keys(t))
    raise Unsupported("iter() of this value")


def _next(it, a, k):
    io = as_iterator(it, a[0])
    if io is not None:
        rest = io.fields["rest"]
        if it.branch(z3.Length(rest) > 0):
            io.fields["rest"] = z3.Extract(rest, 1, z3.Length(rest) - 1)
            return rest[0]
        if len(a) > 1:
            return a[1]
        it.raise_(StopIteration)
    v = unbox(it, a[0])
    if isinstance(v, LazyGen):
        v = run_genexp(it, v)
    if isinstance(v, GenVal):
        for item in v.items:
            if item[0] == "yield":
                return item[1]
            if item[0] in ("effect", "write"):
                continue
            break
        else:
            if v.pending_exc is not None:
                raise PyRaise(v.pending_exc)
            if len(a) > 1:
                return a[1]
            it.raise_(StopIteration)
    s = seq_of(it, v)
    if s is None:
        raise Unsupported("next() of this iterable")
    if it.branch(z3.Length(s) > 0):
        return s[0]
    if len(a) > 1:
        return a[1]
    it.raise_(StopIteration)


def _enumerate(it, a, k):
    seq = iterate(it, a[0])
    if isinstance(seq, list):
        return [it.to_term((i, x)) for i, x in enumerate(seq)]
    if isinstance(seq, IterSpec):
        return IterSpec(("enumerate", seq.key), lambda i: S.mk_tuple([Py.int(i), it.to_term(seq.elem(i))]), seq.bound, seq.length)
    raise Unsupported("enumerate over generator")


def _zip(it, a, k):
    if len(a) != 2:
        raise Unsupported("zip arity")
    x, y = iterate(it, a[0]), iterate(it, a[1])
    if isinstance(x, list) and isinstance(y, list):
        return [it.to_term((p, q)) for p, q in zip(x, y)]
    if isinstance(x, IterSpec) and isinstance(y, IterSpec):
        if x.key[0] == "range" and y.key[0] in ("slice", "strslice") and it.valid(z3.And(*[p == q for p, q in zip(x.key[1:], y.key[2:])])):
            # range(a, b, c) zipped with seq[a:b:c] (same normalised triple): one range-shaped domain
            return IterSpec(x.key, lambda i: S.mk_tuple([it.to_term(x.elem(i)), it.to_term(y.elem(i))]), x.bound, None)
        ln = None
        if x.length is not None and y.length is not None:
            ln = z3.If(x.length <= y.length, x.length, y.length)
        return IterSpec(
            ("zip", x.key, y.key),
            lambda i: S.mk_tuple([it.to_term(x.elem(i)), it.to_term(y.elem(i))]),
            lambda i: z3.And(x.bound(i), y.bound(i)),
            ln,
        )
    raise Unsupported("zip of mixed concrete/symbolic iterables")


def _range(it, a, k):
    vals = [S.intval(T(it, x)) for x in a]
    for x in a:
        if not it.branch(S.is_intlike(T(it, x))):
            it.raise_(TypeError, "range() integer expected")
    if len(vals) == 1:
        start, stop, step = z3.IntVal(0), vals[0], z3.IntVal(1)
    elif len(vals) == 2:
        start, stop, step = vals[0], vals[1], z3.IntVal(1)
    else:
        start, stop, step = vals
        if it.branch(step == 0):
            it.raise_(ValueError, "range() arg 3 must not be zero")
    return RangeVal(z3.simplify(start), z3.simplify(stop), z3.simplify(step))


# start + i*step, kept uninterpreted so that no obligation contains nonlinear arithmetic; the
# linear facts assumed about it (it lies between start and stop) are consequences of the definition.
range_at = z3.Function("range_at", INT, INT, INT, INT)


def _range_bound(a, b, c, i):
    v = range_at(a, c, i)
    return z3.And(i >= 0, z3.Implies(i == 0, v == a), z3.If(c > 0, z3.And(v < b, v >= a), z3.And(v > b, v <= a)))


def range_iterspec(r):
    return IterSpec(
        ("range", r.start, r.stop, r.step),
        lambda i: Py.int(range_at(r.start, r.step, i)),
        lambda i: _range_bound(r.start, r.stop, r.step, i),
        None,
    )


def elem_facts_for(it, seqterm):
    """The element predicates registered for this sequence term (contracts state them for their
    symbolic inputs; the library derives them for filtered collections and fold accumulators)."""
    st = z3.simplify(seqterm)
    out = []
    for q, f in getattr(it, "elem_facts", []):
        if z3.eq(z3.simplify(q), st) and f not in out:
            out.append(f)
    return out


def derives_elem_fact(it, seqterm, f):
    """Syntactic derivation of `every element of seqterm satisfies f` from registered facts:
    closed under concatenation, case split and (registered) filtered collections."""
    st = z3.simplify(seqterm)
    if f in elem_facts_for(it, st):
        return True
    for q, g in getattr(it, "elem_facts", []):
        # the same sequence written differently (simplification is not canonical)
        if g is f and q.sort() == st.sort() and not z3.eq(z3.simplify(q), st) and str(q.decl()) == str(st.decl()) and _known(it, q == st):
            return True
    if z3.is_app(st):
        k = st.decl().kind()
        if k == z3.Z3_OP_SEQ_CONCAT:
            return all(derives_elem_fact(it, st.arg(i), f) for i in range(st.num_args()))
        if k == z3.Z3_OP_ITE:
            return derives_elem_fact(it, st.arg(1), f) and derives_elem_fact(it, st.arg(2), f)
        if k == z3.Z3_OP_SEQ_EMPTY:
            return True
        if k == z3.Z3_OP_SEQ_UNIT:
            return _known(it, f(st.arg(0)))
    if os.environ.get("PYVC_DEBUG_FOLD"):
        print("[not derived]", str(st)[:400].replace("\n", " "), "| registered:", [str(z3.simplify(q))[:80].replace("\n", " ") for q, _ in getattr(it, "elem_facts", [])], file=sys.stderr)
    return False


def seq_iterspec(it, seqterm, key=None):
    extra = elem_facts_for(it, seqterm)
    return IterSpec(
        key or ("seq", seqterm), lambda i: seqterm[i], lambda i: z3.And(i >= 0, i < z3.Length(seqterm), *[f(seqterm[i]) for f in extra]), z3.Length(seqterm)
    )


MAX_UNROLL = 6


def concrete_len(seqterm):
    n = z3.simplify(z3.Length(seqterm))
    if z3.is_int_value(n) and n.as_long() <= MAX_UNROLL:
        return n.as_long()
    return None


def iterate(it, v):
    """value -> python list of element values | GenVal | IterSpec"""
    if isinstance(v, IterSpec):
        return v
    io = as_iterator(it, v)
    if io is not None:
        rest = io.fields["rest"]
        io.fields["rest"] = S.EmptySeq  # exhausted by the loop
        n = concrete_len(z3.simplify(rest))
        if n is not None:
            return [z3.simplify(rest[i]) for i in range(n)]
        extra = [f for (q, f) in getattr(it, "elem_facts", []) if z3.eq(z3.simplify(q), z3.simplify(rest))]
        return IterSpec(("seq", rest), lambda i: rest[i], lambda i: z3.And(i >= 0, i < z3.Length(rest), *[f(rest[i]) for f in extra]), z3.Length(rest))
    v = unbox(it, v)
    if isinstance(v, (list,)):
        return v
    if isinstance(v, GenVal):
        return v
    if isinstance(v, LazyGen):
        return run_genexp(it, v)
    if isinstance(v, IterSpec):
        return v
    if isinstance(v, RangeVal):
        if all(z3.is_int_value(x) for x in (v.start, v.stop, v.step)):
            rr = range(v.start.as_long(), v.stop.as_long(), v.step.as_long())
            if len(rr) <= MAX_UNROLL:
                return [S.mk_int(i) for i in rr]
        return range_iterspec(v)
    if S.is_term(v):
        o = it.deref(v)
        if o is not None and not S.is_term(o) and not isinstance(o, SymObj):
            return iterate(it, o)
        if it.branch(z3.Or(Py.is_list(v), Py.is_tuple(v), Py.is_nodelist(v))):
            s = z3.simplify(S.seq_items(v))
            n = concrete_len(s)
            extra = [f for (q, f) in getattr(it, "elem_facts", []) if z3.eq(z3.simplify(q), s)]
            if n is not None:
                for i in range(n):
                    it.assume(S.json_child(v, s[i]))
                    for f in extra:
                        it.assume(f(s[i]))
                return [z3.simplify(s[i]) for i in range(n)]
            return IterSpec(
                ("seq", s),
                lambda i: s[i],
                lambda i: z3.And(i >= 0, i < z3.Length(s), S.json_child(v, s[i]), *[f(s[i]) for f in extra]),
                z3.Length(s),
            )
        if it.branch(Py.is_dict(v)):
            s = z3.simplify(Py.keys(v))
            it.assume(z3.Length(s) == z3.Length(Py.vals(v)))
            n = concrete_len(s)
            if n is not None:
                for i in range(n):
                    it.assume(S.json_key(v, s[i]))
                return [z3.simplify(s[i]) for i in range(n)]
            return IterSpec(("seq", s), lambda i: s[i], lambda i: z3.And(i >= 0, i < z3.Length(s), S.json_key(v, s[i])), z3.Length(s))
        if it.branch(Py.is_str(v)):
            s = z3.simplify(Py.s(v))
            if z3.is_string_value(s) and len(s.as_string()) <= MAX_UNROLL:
                return [S.mk_str(c) for c in s.as_string()]
            return IterSpec(("chars", s), lambda i: Py.str(z3.SubString(s, i, 1)), lambda i: z3.And(i >= 0, i < z3.Length(s)), z3.Length(s))
        it.raise_(TypeError, "object is not iterable")
    raise Unsupported(f"iterate({type(v).__name__})")


def run_genexp(it, lg):
    """Evaluate a generator expression now, with the *current* values of its free variables."""
    node = lg.node
    saved = it.trace
    it.trace = []
    pending = None
    try:
        _comp_loops(it, node.generators, 0, lg.frame, lambda fr: it.trace.append(("yield", it.to_term(it.eval(node.elt, fr)))), first=lg.first_iter)
    except PyRaise as e:
        pending = e.exc
    items = it.trace
    it.trace = saved
    return GenVal(items, pending)


def _comp_loops(it, gens, gi, frame, emit, first=None):
    if gi == len(gens):
        emit(frame)
        return
    g = gens[gi]
    src = first if (gi == 0 and first is not None) else it.eval(g.iter, frame)
    # body as synthetic statements
    body = [_CompBody(gens, gi, emit)]
    inner = Frame(frame.func, frame)
    it.run_loop(g.target, src, body, [], inner)


class _CompBody(ast.stmt):
    _fields = ()

    def __init__(self, gens, gi, emit):
        super().__init__()
        self.gens, self.gi, self.emit = gens, gi, emit


def _st_CompBody(self, s, frame):
    g = s.gens[s.gi]
    for cond in g.ifs:
        if not self.branch(self.truth(self.eval(cond, frame))):
            return None
    _comp_loops(self, s.gens, s.gi + 1, frame, s.emit)
    return None


def comprehension(it, e, frame, kind):
    saved = it.trace
    it.trace = []
    try:
        if kind == "list":
            _comp_loops(it, e.generators, 0, frame, lambda fr: it.trace.append(("yield", it.to_term(it.eval(e.elt, fr)))))
        else:
            _comp_loops(
                it,
                e.generators,
                0,
                frame,
                lambda fr: it.trace.append(("yield", it.to_term((it.eval(e.key, fr), it.eval(e.value, fr))))),
            )
        items = it.trace
    finally:
        it.trace = saved
    s = seq_of(it, GenVal(items))
    if s is None:
        raise Unsupported("comprehension result")
    if kind == "list":
        return Py.list(s)
    # dict comprehension over concrete pairs only
    n = concrete_len(s)
    if n is None:
        return Py.dict(pairs_first(it, s), pairs_second(it, s))
    ks = [z3.simplify(Py.titems(s[i])[0]) for i in range(n)]
    vs = [z3.simplify(Py.titems(s[i])[1]) for i in range(n)]
    return Py.dict(S.mk_seq(ks), S.mk_seq(vs))


seq_firsts = z3.Function("seq_firsts", S.SeqPy, S.SeqPy)
seq_seconds = z3.Function("seq_seconds", S.SeqPy, S.SeqPy)


def pairs_first(it, s):
    return seq_firsts(s)


def pairs_second(it, s):
    return seq_seconds(s)


def yield_from(it, v):
    v = unbox(it, v)
    if isinstance(v, LazyGen):
        v = run_genexp(it, v)
    if isinstance(v, GenVal):
        it.trace.extend(v.items)
        if v.pending_exc is not None:
            raise PyRaise(v.pending_exc)
        return
    seq = iterate(it, v)
    if isinstance(seq, list):
        for x in seq:
            it.trace.append(("yield", it.to_term(x)))
        return
    if isinstance(seq, IterSpec) and seq.key[0] == "seq":
        it.trace.append(("yieldfrom", seq.key[1]))
        return
    raise Unsupported("yield from over this iterable")


def unpack(it, v, n):
    v = unbox(it, v)
    if isinstance(v, (list, tuple)):
        if len(v) != n:
            it.raise_(ValueError, "unpack")
        return list(v)
    t = it.to_term(v)
    if it.branch(z3.Or(Py.is_tuple(t), Py.is_list(t))):
        s = S.seq_items(t)
        if not it.branch(z3.Length(s) == n):
            it.raise_(ValueError, "not enough / too many values to unpack")
        return [z3.simplify(s[i]) for i in range(n)]
    raise Unsupported("unpack of non-tuple")


# --------------------------------------------------------------------------- item access


def norm_slice(it, sl, n):
    """CPython PySlice_Unpack + PySlice_AdjustIndices: (start, stop, step) Int terms for length n.

    Raises ValueError for step == 0 (as slice.indices and list slicing do).
    """
    def as_int(x, what):
        x = T(it, x)
        if it.branch(Py.is_none(x)):
            return None
        if not it.branch(S.is_intlike(x)):
            it.raise_(TypeError, "slice indices must be integers or None")
        return S.intval(x)

    step = as_int(sl.step, "step")
    if step is None:
        step = z3.IntVal(1)
    elif it.branch(step == 0):
        it.raise_(ValueError, "slice step cannot be zero")
    start = as_int(sl.start, "start")
    stop = as_int(sl.stop, "stop")
    neg = step < 0
    if start is None:
        nstart = z3.If(neg, n - 1, z3.IntVal(0))
    else:
        nstart = z3.If(
            start < 0,
            z3.If(start + n < 0, z3.If(neg, z3.IntVal(-1), z3.IntVal(0)), start + n),
            z3.If(start >= n, z3.If(neg, n - 1, n), start),
        )
    if stop is None:
        nstop = z3.If(neg, z3.IntVal(-1), n)
    else:
        nstop = z3.If(
            stop < 0,
            z3.If(stop + n < 0, z3.If(neg, z3.IntVal(-1), z3.IntVal(0)), stop + n),
            z3.If(stop >= n, z3.If(neg, n - 1, n), stop),
        )
    return z3.simplify(nstart), z3.simplify(nstop), z3.simplify(step)


def slice_indices(it, sl, n):
    nt = T(it, n)
    a, b, c = norm_slice(it, sl, S.intval(nt))
    return S.mk_tuple([Py.int(a), Py.int(b), Py.int(c)])


def slice_get(it, obj, sl):
    obj = T(it, obj)
    if it.branch(z3.Or(Py.is_list(obj), Py.is_tuple(obj), Py.is_nodelist(obj))):
        s = S.seq_items(obj)
        n = z3.Length(s)
        a, b, c = norm_slice(it, sl, n)
        term = None
        cn = concrete_len(z3.simplify(s))
        sa, sb, sc = z3.simplify(a), z3.simplify(b), z3.simplify(c)
        if cn is not None and z3.is_int_value(sa) and z3.is_int_value(sb) and z3.is_int_value(sc) and _known(it, z3.Or(Py.is_list(obj), Py.is_tuple(obj))):
            # a container of known length sliced at known bounds: the slice itself
            ss = z3.simplify(s)
            elems = [z3.simplify(ss[i]) for i in range(sa.as_long(), sb.as_long(), sc.as_long())] if sc.as_long() > 0 else [z3.simplify(ss[i]) for i in range(sa.as_long(), sb.as_long(), sc.as_long())]
            return z3.If(Py.is_tuple(obj), S.mk_tuple(elems), S.mk_list(elems)) if not _known(it, Py.is_tuple(obj)) else S.mk_tuple(elems)
        if z3.is_int_value(c) and c.as_long() == 1:
            ln = z3.If(b > a, b - a, 0)
            sub = z3.Extract(s, a, ln)
            term = z3.If(Py.is_list(obj), Py.list(sub), z3.If(Py.is_tuple(obj), Py.tuple(sub), Py.list(sub)))
        # general step: a view whose element i is s[a + i*c] (list slicing semantics)
        return IterSpec(
            ("slice", s, a, b, c),
            lambda i: s[range_at(a, c, i)],
            lambda i: z3.And(_range_bound(a, b, c, i), S.json_child(obj, s[range_at(a, c, i)])),
            None,
            term,
        )
    if it.branch(Py.is_str(obj)):
        s = Py.s(obj)
        n = z3.Length(s)
        a, b, c = norm_slice(it, sl, n)
        if z3.is_int_value(c) and c.as_long() == 1:
            ln = z3.If(b > a, b - a, 0)
            return Py.str(z3.SubString(s, a, ln))

        return IterSpec(
            ("strslice", s, a, b, c),
            lambda i: Py.str(z3.SubString(s, range_at(a, c, i), 1)),
            lambda i: _range_bound(a, b, c, i),
            None,
        )
    if it.branch(Py.is_dict(obj)):
        it.raise_(KeyError, "slice")  # unhashable in <3.12, KeyError in 3.12: both outside every family
    it.raise_(TypeError, "object is not subscriptable")


def dict_last_member(it, d, key):
    """`d[key]` when d is syntactically `... + {k_last: v_last}` and key is known to be k_last (the
    member just written) - the value itself instead of an element at a symbolic position; None otherwise."""
    ks, vs = z3.simplify(Py.keys(d)), z3.simplify(Py.vals(d))
    lk, lv = split_last(ks), split_last(vs)
    if lk is None or lv is None:
        return None
    if _known(it, z3.Length(lk[0]) == z3.Length(lv[0])) and _known(it, S.py_eq(lk[1], key)) and _known(it, S.dict_find(lk[0], key) < 0):
        return lv[1]
    return None


def dict_lookup(it, d, key):
    """index of `key` in dict term d, as Int term (>= 0 found, -1 missing)."""
    keys = Py.keys(d)
    n = concrete_len(z3.simplify(keys))
    if n is not None:
        # a dictionary with a known list of keys: the position is computed, not axiomatised
        j = S.mk_int(-1) if False else z3.IntVal(-1)
        ks = z3.simplify(keys)
        for i in reversed(range(n)):
            j = z3.If(S.py_eq(z3.simplify(ks[i]), key), z3.IntVal(i), j)
        return z3.simplify(j)
    j = S.dict_find(keys, key)
    for f in S.dict_find_facts(keys, key, it.index_terms):
        it.assume(f)
    it.assume(z3.Length(keys) == z3.Length(Py.vals(d)))
    it.assume(z3.Implies(j >= 0, S.json_key(d, keys[j])))
    return j


def unhashable(t):
    return z3.Or(Py.is_list(t), Py.is_dict(t), Py.is_nodelist(t))


def split_last(seqterm):
    """Concat(..., Unit(y)) -> (prefix, y) syntactically, else None."""
    t = seqterm
    if z3.is_app(t) and t.decl().kind() == z3.Z3_OP_SEQ_UNIT:
        return S.EmptySeq, t.arg(0)
    if z3.is_app(t) and t.decl().kind() == z3.Z3_OP_SEQ_CONCAT and t.num_args() >= 2:
        lastarg = t.arg(t.num_args() - 1)
        if z3.is_app(lastarg) and lastarg.decl().kind() == z3.Z3_OP_SEQ_UNIT:
            pre = [t.arg(i) for i in range(t.num_args() - 1)]
            return (pre[0] if len(pre) == 1 else z3.Concat(*pre)), lastarg.arg(0)
    return None


def _container_seq(obj):
    t = obj
    if z3.is_app(t) and t.decl().name() in ("tuple", "list") and t.num_args() == 1:
        return t.decl().name(), t.arg(0)
    return None, None


def getitem(it, obj, key):
    if isinstance(key, SliceVal):
        # parts[:-1] of a syntactic `prefix ++ (last,)`
        if S.is_term(obj) or True:
            ot = T(it, obj)
            kind, seq = _container_seq(ot)
            if kind is not None and split_last(seq) is not None:
                st, sp, se = (z3.simplify(T(it, x)) for x in (key.start, key.stop, key.step))
                if st.decl().name() == "none" and se.decl().name() == "none" and z3.eq(sp, S.mk_int(-1)):
                    pre, _ = split_last(seq)
                    return Py.tuple(pre) if kind == "tuple" else Py.list(pre)
        return slice_get(it, obj, key)
    if S.is_term(obj) and S.is_term(key) and z3.eq(z3.simplify(key), S.mk_int(-1)):
        kind, seq = _container_seq(obj)
        if kind is not None and split_last(seq) is not None:
            return split_last(seq)[1]
    if isinstance(obj, SymObj) and not is_box_cls(obj.cls):
        if "__getitem__" in _mro_names(obj.cls):
            return it.call_method(obj, "__getitem__", [key])
        it.raise_(TypeError, "object is not subscriptable")
    obj = T(it, obj)
    o = it.deref(obj)
    if isinstance(o, SymObj) and not is_box_cls(o.cls):
        return getitem(it, o, key)
    if isinstance(o, SliceVal) or isinstance(it.deref(it.to_term(key)) if S.is_term(key) else None, SliceVal):
        return slice_get(it, obj, it.deref(it.to_term(key)))
    key = T(it, key)
    if it.branch(Py.is_dict(obj)):
        if it.branch(unhashable(key)):
            it.raise_(TypeError, "unhashable type")
        ks = z3.simplify(Py.keys(obj))
        n = concrete_len(ks)
        if n is not None and concrete_len(z3.simplify(Py.vals(obj))) == n:
            for i in range(n):
                if it.branch(S.py_eq(z3.simplify(ks[i]), key)):
                    return z3.simplify(z3.simplify(Py.vals(obj))[i])
            it.raise_(KeyError, key)
        m = dict_last_member(it, obj, key)
        if m is not None:
            return m
        j = dict_lookup(it, obj, key)
        if it.branch(j >= 0):
            it.assume(S.json_child(obj, Py.vals(obj)[j]))
            return Py.vals(obj)[j]
        it.raise_(KeyError, key)
    if it.branch(z3.Or(Py.is_list(obj), Py.is_tuple(obj), Py.is_nodelist(obj))):
        if not it.branch(S.is_intlike(key)):
            it.raise_(TypeError, "indices must be integers or slices")
        s = S.seq_items(obj)
        n = z3.Length(s)
        kk = S.intval(key)
        if it.branch(z3.And(kk >= -n, kk < n)):
            e = s[z3.If(kk < 0, kk + n, kk)]
            it.assume(S.json_child(obj, e))
            # a NodeList holds match records of JSON values
            it.assume(z3.Implies(Py.is_nodelist(obj), z3.And(Py.is_match(e), S.json_value(Py.mobj(e)))))
            return e
        it.raise_(IndexError, "index out of range")
    if it.branch(Py.is_str(obj)):
        if not it.branch(S.is_intlike(key)):
            it.raise_(TypeError, "string indices must be integers")
        s = Py.s(obj)
        n = z3.Length(s)
        kk = S.intval(key)
        if it.branch(z3.And(kk >= -n, kk < n)):
            return Py.str(z3.SubString(s, z3.If(kk < 0, kk + n, kk), 1))
        it.raise_(IndexError, "string index out of range")
    if it.branch(Py.is_match(obj)) or it.branch(Py.is_obj(obj)):
        raise Unsupported("subscript of opaque object")
    it.raise_(TypeError, "object is not subscriptable")


def store_back(it, box, container_node, frame, new, old=None, added=None):
    """Write the new content of a mutated container: into its box, or rebind the local name."""
    if old is not None:
        # JSON-ness is preserved by updates with JSON values (elements of the new container are
        # elements of the old one or the added value)
        pre = S.isjson(old) if added is None else z3.And(S.isjson(old), S.json_value(added))
        it.assume(z3.Implies(pre, S.isjson(new)))
    if box is not None:
        if box.origin != "FRESH":
            it.trace.append(("write", box.origin, box.cls.__name__, "content"))
        box.fields["v"] = new
        it.trace.append(("mutate", box.ref, box.origin))
        return
    if isinstance(container_node, ast.Name):
        frame.vars[container_node.id] = new
        it.assumed.append("local-container-unaliased:" + container_node.id)
        return
    if isinstance(container_node, ast.Attribute):
        it.setattr(it.eval(container_node.value, frame), container_node.attr, new)
        return
    raise Unsupported("mutation of a container that is neither a box nor a local name")


def setitem(it, obj, key, val, frame, node):
    box = box_of(it, obj)
    if isinstance(key, SliceVal):
        raise Unsupported("slice assignment")
    cur = T(it, obj)
    key = T(it, key)
    val = it.to_term(val)
    if it.branch(Py.is_dict(cur)):
        if it.branch(unhashable(key)):
            it.raise_(TypeError, "unhashable type")
        j = dict_lookup(it, cur, key)
        if it.branch(j >= 0):
            vals = Py.vals(cur)
            newvals = z3.Concat(z3.Extract(vals, 0, j), z3.Unit(val), z3.Extract(vals, j + 1, z3.Length(vals) - j - 1))
            new = Py.dict(Py.keys(cur), newvals)
        else:
            new = Py.dict(z3.Concat(Py.keys(cur), z3.Unit(key)), z3.Concat(Py.vals(cur), z3.Unit(val)))
        return store_back(it, box, node, frame, new, cur, val)
    if it.branch(Py.is_list(cur)):
        if not it.branch(S.is_intlike(key)):
            it.raise_(TypeError, "list indices must be integers or slices")
        s = Py.items(cur)
        n = z3.Length(s)
        kk = S.intval(key)
        if not it.branch(z3.And(kk >= -n, kk < n)):
            it.raise_(IndexError, "list assignment index out of range")
        j = z3.If(kk < 0, kk + n, kk)
        new = Py.list(z3.Concat(z3.Extract(s, 0, j), z3.Unit(val), z3.Extract(s, j + 1, n - j - 1)))
        return store_back(it, box, node, frame, new, cur, val)
    it.raise_(TypeError, "object does not support item assignment")


def delitem(it, obj, key, frame, node):
    box = box_of(it, obj)
    cur = T(it, obj)
    key = T(it, key)
    if it.branch(Py.is_dict(cur)):
        if it.branch(unhashable(key)):
            it.raise_(TypeError, "unhashable type")
        j = dict_lookup(it, cur, key)
        if not it.branch(j >= 0):
            it.raise_(KeyError, key)
        ks, vs = Py.keys(cur), Py.vals(cur)
        n = z3.Length(ks)
        new = Py.dict(
            z3.Concat(z3.Extract(ks, 0, j), z3.Extract(ks, j + 1, n - j - 1)),
            z3.Concat(z3.Extract(vs, 0, j), z3.Extract(vs, j + 1, n - j - 1)),
        )
        return store_back(it, box, node, frame, new, cur)
    if it.branch(Py.is_list(cur)):
        if not it.branch(S.is_intlike(key)):
            it.raise_(TypeError, "list indices must be integers or slices")
        s = Py.items(cur)
        n = z3.Length(s)
        kk = S.intval(key)
        if not it.branch(z3.And(kk >= -n, kk < n)):
            it.raise_(IndexError, "list assignment index out of range")
        j = z3.If(kk < 0, kk + n, kk)
        new = Py.list(z3.Concat(z3.Extract(s, 0, j), z3.Extract(s, j + 1, n - j - 1)))
        return store_back(it, box, node, frame, new, cur)
    it.raise_(TypeError, "object doesn't support item deletion")


# --------------------------------------------------------------------------- operators


def binop(it, op, a, b):
    a, b = T(it, a), T(it, b)
    if isinstance(op, ast.Add):
        if it.branch(z3.And(S.is_intlike(a), S.is_intlike(b))):
            return Py.int(S.intval(a) + S.intval(b))
        if it.branch(z3.And(Py.is_str(a), Py.is_str(b))):
            return Py.str(z3.Concat(Py.s(a), Py.s(b)))
        if it.branch(z3.And(Py.is_tuple(a), Py.is_tuple(b))):
            return Py.tuple(z3.Concat(Py.titems(a), Py.titems(b)))
        if it.branch(z3.And(Py.is_list(a), Py.is_list(b))):
            return Py.list(z3.Concat(Py.items(a), Py.items(b)))
        if it.branch(z3.And(S.is_number(a), S.is_number(b))):
            return Py.float(S.numval(a) + S.numval(b))
        it.raise_(TypeError, "unsupported operand type(s) for +")
    if isinstance(op, (ast.Sub, ast.Mult)):
        if it.branch(z3.And(S.is_intlike(a), S.is_intlike(b))):
            x, y = S.intval(a), S.intval(b)
            return Py.int(x - y if isinstance(op, ast.Sub) else x * y)
        if it.branch(z3.And(S.is_number(a), S.is_number(b))):
            x, y = S.numval(a), S.numval(b)
            return Py.float(x - y if isinstance(op, ast.Sub) else x * y)
        it.raise_(TypeError, "unsupported operand type(s)")
    if isinstance(op, ast.BitAnd):
        if it.branch(z3.And(S.is_intlike(a), S.is_intlike(b))):
            return Py.int(int_and(S.intval(a), S.intval(b)))
        it.raise_(TypeError, "unsupported operand type(s) for &")
    if isinstance(op, ast.Pow):
        x, y = z3.simplify(a), z3.simplify(b)
        if x.decl().name() == "int" and y.decl().name() == "int" and z3.is_int_value(x.arg(0)) and z3.is_int_value(y.arg(0)):
            return S.mk_int(x.arg(0).as_long() ** y.arg(0).as_long())
    raise Unsupported(f"binary operator {type(op).__name__}")


def contains(it, container, x):
    """z3 Bool for `x in container` (raises TypeError per CPython)."""
    if isinstance(container, IterSpec):
        raise Unsupported("membership in a view")
    c = T(it, container)
    x = T(it, x)
    if it.branch(Py.is_dict(c)):
        if it.branch(unhashable(x)):
            it.raise_(TypeError, "unhashable type")
        if dict_last_member(it, c, x) is not None:
            return z3.BoolVal(True)
        return dict_lookup(it, c, x) >= 0
    if it.branch(Py.is_str(c)):
        if not it.branch(Py.is_str(x)):
            it.raise_(TypeError, "'in <string>' requires string as left operand")
        return z3.Contains(Py.s(c), Py.s(x))
    if it.branch(z3.Or(Py.is_list(c), Py.is_tuple(c), Py.is_nodelist(c))):
        s = items_of(it, c)
        n = concrete_len(s)
        if n is not None:
            return z3.Or(*[S.py_eq(z3.simplify(s[i]), x) for i in range(n)]) if n else z3.BoolVal(False)
        r = seq_contains_py(s, x)
        # facts: empty has nothing; singleton/unit membership; element at a known index is a member
        it.assume(z3.Implies(z3.Length(s) == 0, z3.Not(r)))
        it.assume(z3.Implies(z3.Length(s) == 1, r == S.py_eq(s[0], x)))
        for j in it.index_terms:
            it.assume(z3.Implies(z3.And(j >= 0, j < z3.Length(s), S.py_eq(s[j], x)), r))
        return r
    it.raise_(TypeError, "argument is not iterable")


def compare(it, op, a, b):
    if isinstance(op, (ast.Is, ast.IsNot)):
        r = identical(it, a, b)
        if isinstance(op, ast.IsNot):
            r = (not r) if isinstance(r, bool) else z3.Not(r)
        return S.mk_bool(r)
    if isinstance(op, (ast.In, ast.NotIn)):
        r = contains(it, b, a)
        return S.mk_bool(z3.Not(r) if isinstance(op, ast.NotIn) else r)
    if isinstance(op, (ast.Eq, ast.NotEq)):
        r = equal(it, a, b)
        if isinstance(op, ast.NotEq):
            r = (not r) if isinstance(r, bool) else z3.Not(r)
        return S.mk_bool(r)
    a, b = T(it, a), T(it, b)
    if _head(a) == "int" and _head(b) == "int":
        # pure integer comparison: keep it in linear integer arithmetic (no Int/Real mixing)
        x, y = Py.i(a), Py.i(b)
        r = {ast.Lt: x < y, ast.LtE: x <= y, ast.Gt: x > y, ast.GtE: x >= y}.get(type(op))
        if r is None:
            raise Unsupported(f"comparison {type(op).__name__}")
        return S.mk_bool(r)
    both_num = z3.And(S.is_number(a), S.is_number(b))
    both_str = z3.And(Py.is_str(a), Py.is_str(b))
    both_seq = z3.Or(z3.And(Py.is_list(a), Py.is_list(b)), z3.And(Py.is_tuple(a), Py.is_tuple(b)))
    if not it.branch(z3.Or(both_num, both_str, both_seq)):
        it.raise_(TypeError, "ordering not supported between these types")
    x, y = S.numval(a), S.numval(b)
    sa, sb = Py.s(a), Py.s(b)
    if isinstance(op, ast.Lt):
        r = z3.If(both_num, x < y, z3.If(both_str, sa < sb, py_lt_other(a, b)))
    elif isinstance(op, ast.LtE):
        r = z3.If(both_num, x <= y, z3.If(both_str, sa <= sb, z3.Or(py_lt_other(a, b), S.py_eq(a, b))))
    elif isinstance(op, ast.Gt):
        r = z3.If(both_num, x > y, z3.If(both_str, sb < sa, py_lt_other(b, a)))
    elif isinstance(op, ast.GtE):
        r = z3.If(both_num, x >= y, z3.If(both_str, sb <= sa, z3.Or(py_lt_other(b, a), S.py_eq(a, b))))
    else:
        raise Unsupported(f"comparison {type(op).__name__}")
    return S.mk_bool(r)


def _head(t):
    t = z3.simplify(t)
    return t.decl().name() if t.num_args() > 0 or t.decl().kind() == z3.Z3_OP_DT_CONSTRUCTOR else None


def identical(it, a, b):
    if isinstance(a, SymObj) or isinstance(b, SymObj):
        if isinstance(a, SymObj) and isinstance(b, SymObj):
            return a.ref == b.ref  # (not `a is b`: loop bodies run on clones of the heap objects)
        other = b if isinstance(a, SymObj) else a
        me = a if isinstance(a, SymObj) else b
        if S.is_term(other):
            return z3.simplify(it.to_term(me) == other)
        return False
    if isinstance(a, ExcVal) or isinstance(b, ExcVal):
        return a is b
    ta, tb = it.to_term(a), it.to_term(b)
    sa, sb = z3.simplify(ta), z3.simplify(tb)
    sentinel = {"none", "undef", "obj", "bool"}
    if sa.decl().name() in sentinel or sb.decl().name() in sentinel:
        return ta == tb
    raise Unsupported("identity test between two non-sentinel values")


def equal(it, a, b):
    """z3 Bool / bool for Python a == b, honouring user-defined __eq__."""
    for x, y in ((a, b), (b, a)):
        o = x if isinstance(x, SymObj) else (it.deref(x) if S.is_term(x) else None)
        if isinstance(o, SymObj) and not is_box_cls(o.cls) and "__eq__" in _mro_names(o.cls):
            r = it.call_method(o, "__eq__", [y])
            return it.truth(r)
    if isinstance(a, SymObj) and isinstance(b, SymObj) and not is_box_cls(a.cls):
        return a.ref == b.ref
    ta, tb = T(it, a), T(it, b)
    ha, hb = _head(ta), _head(tb)
    if ha == "int" and hb == "int":
        return Py.i(ta) == Py.i(tb)
    if ha == "str" and hb == "str":
        return Py.s(ta) == Py.s(tb)
    add_eq_facts(it, ta, tb)
    if getattr(it, "flags", {}).get("py_eq_is_rfc_eq") and getattr(it, "json_equality_site", True):
        # carve-out of the known finding "Python == identifies booleans with numbers": on the
        # remaining inputs Python's == and JSON equality coincide
        return S.rfc_eq(ta, tb)
    return S.py_eq(ta, tb)


_SCALAR_HEADS = {"none", "bool", "int", "float", "str", "undef", "obj", "pattern", "match", "nodelist"}


def add_eq_facts(it, ta, tb):
    """Unfolding facts for deep equality, only where both sides may be lists / tuples."""
    ha, hb = z3.simplify(ta).decl().name(), z3.simplify(tb).decl().name()
    if ha in _SCALAR_HEADS or hb in _SCALAR_HEADS:
        return
    for is_k, acc in ((Py.is_list, Py.items), (Py.is_tuple, Py.titems)):
        if ha in ("list", "tuple") and ha != is_k.name().split()[-1] if False else False:
            continue
        guard = z3.And(is_k(ta), is_k(tb))
        if not it.check(guard):
            continue
        for f in S.eq_unfold_facts(acc(ta), acc(tb)):
            it.assume(z3.Implies(guard, f))
    guard = z3.And(Py.is_dict(ta), Py.is_dict(tb))
    if it.check(guard):
        for f in S.dict_eq_unfold_facts(ta, tb):
            it.assume(z3.Implies(guard, f))


# --------------------------------------------------------------------------- methods of value terms


def term_attr(it, v, name):  # noqa: PLR0911, PLR0912
    """Attribute / method of a value term (match fields, str / list / dict / tuple methods)."""
    if name in ("obj", "value") and _known(it, Py.is_match(v)):
        return Py.mobj(v)
    if _known(it, Py.is_match(v)):
        if name == "parts":
            return Py.mparts(v)
        if name == "path":
            return Py.str(Py.mpath(v))
        if name == "root":
            return Py.mroot(v)
        if name == "_filter_context":
            return Py.mfc(v)
        if name == "parent":
            return Py.mparent(v)
        if name == "children":
            return GhostChildren(v)
        import importlib

        jm = importlib.import_module("jsonpath.match")
        owner, attr = it.find_method(jm.JSONPathMatch, name)
        if owner is not None:
            return it.class_attr(owner, attr, v, name)
        it.raise_(AttributeError, name)
    if name == "__class__":
        return ("classof", v)
    meth = STR_METHODS.get(name) if _known(it, Py.is_str(v)) else None
    if meth is None and _known(it, Py.is_dict(v)):
        meth = DICT_METHODS.get(name)
    if meth is None and _known(it, z3.Or(Py.is_list(v), Py.is_nodelist(v))):
        meth = LIST_METHODS.get(name)
        if meth is None and _known(it, Py.is_nodelist(v)):
            meth = NODELIST_METHODS.get(name)
    if meth is None and _known(it, Py.is_pattern(v)):
        meth = PATTERN_METHODS.get(name)
    if meth is None and _known(it, Py.is_tuple(v)):
        meth = TUPLE_METHODS.get(name)
    if meth is not None:
        return _wrap(name, meth, v)
    # kind not known: decide by forking over the kinds that have such an attribute
    cands = []
    if name in STR_METHODS:
        cands.append((Py.is_str(v), STR_METHODS))
    if name in DICT_METHODS:
        cands.append((Py.is_dict(v), DICT_METHODS))
    if name in LIST_METHODS:
        cands.append((Py.is_list(v), LIST_METHODS))
    if name in TUPLE_METHODS:
        cands.append((Py.is_tuple(v), TUPLE_METHODS))
    for pred, table in cands:
        if it.branch(pred):
            return _wrap(name, table[name], v)
    if name in ABSTRACT_METHODS and (it.branch(Py.is_obj(v))):
        return Builtin(name, lambda it_, a, k, _v=v: ABSTRACT_METHODS[name](it_, _v, a, k))
    if name in ABSTRACT_FIELDS and it.branch(Py.is_obj(v)):
        return ABSTRACT_FIELDS[name](it, v)
    import importlib as _il

    if hasattr(_il.import_module("jsonpath.match").NodeList, name) and not z3.is_false(z3.simplify(Py.is_nodelist(v))):
        raise Unsupported(f"NodeList.{name} is not modelled")
    if any(hasattr(t, name) for t in (str, dict, list, tuple, int, float, bool, type(None))):
        # a real attribute of a builtin type that this library does not model: undecided, never
        # a spurious AttributeError outcome
        raise Unsupported(f"attribute .{name} of a builtin value is not modelled")
    it.raise_(AttributeError, name)


def _wrap(name, meth, v):
    b = Builtin(name, lambda it_, a, k, _m=meth, _v=v: _m(it_, _v, a, k))
    b.mutator = getattr(meth, "mutator", False)
    return b


class_name_str = z3.Function("class_name_of", Py, STR)


def class_name_of(v):
    return z3.If(
        Py.is_str(v),
        z3.StringVal("str"),
        z3.If(
            Py.is_int(v),
            z3.StringVal("int"),
            z3.If(Py.is_none(v), z3.StringVal("NoneType"), z3.If(Py.is_bool(v), z3.StringVal("bool"), z3.If(Py.is_list(v), z3.StringVal("list"), z3.If(Py.is_dict(v), z3.StringVal("dict"), class_name_str(v))))),
        ),
    )


def _known(it, pred):
    p = z3.simplify(pred)
    if z3.is_true(p):
        return True
    if z3.is_false(p):
        return False
    return it.valid(pred)


def _s_startswith(it, v, a, k):
    p = T(it, a[0])
    if it.branch(Py.is_tuple(p)):
        n = concrete_len(Py.titems(p))
        if n is None:
            raise Unsupported("startswith(symbolic tuple)")
        return S.mk_bool(z3.Or(*[z3.PrefixOf(Py.s(z3.simplify(Py.titems(p)[i])), Py.s(v)) for i in range(n)]))
    return S.mk_bool(z3.PrefixOf(Py.s(p), Py.s(v)))


def _s_endswith(it, v, a, k):
    return S.mk_bool(z3.SuffixOf(Py.s(T(it, a[0])), Py.s(v)))


def _s_replace(it, v, a, k):
    old, new = Py.s(T(it, a[0])), Py.s(T(it, a[1]))
    return Py.str(str_replace_all(Py.s(v), old, new))


str_replace_all = z3.Function("str_replace_all", STR, STR, STR, STR)


def _s_lstrip(it, v, a, k):
    if a:
        raise Unsupported("lstrip(chars)")
    return Py.str(str_lstrip(Py.s(v)))


def _s_strip(it, v, a, k):
    if a:
        raise Unsupported("strip(chars)")
    return Py.str(str_strip(Py.s(v)))


def _s_lower(it, v, a, k):
    return Py.str(str_lower(Py.s(v)))


def _s_split(it, v, a, k):
    if len(a) != 1:
        raise Unsupported("split()")
    r = str_split(Py.s(v), Py.s(T(it, a[0])))
    # library fact: str.split returns at least one piece and every piece is a str
    it.assume(z3.Length(r) >= 1)
    if not any(z3.eq(q, r) and f is IS_STR_ELEM for q, f in getattr(it, "elem_facts", [])):
        it.elem_facts = getattr(it, "elem_facts", []) + [(r, IS_STR_ELEM)]
    return Py.list(r)


def IS_STR_ELEM(e):
    return Py.is_str(e)


def _s_join(it, v, a, k):
    s = seq_of(it, a[0])
    if s is None:
        raise Unsupported("join of this iterable")
    n = concrete_len(s)
    if n is not None:
        parts = []
        for i in range(n):
            e = z3.simplify(s[i])
            if not it.branch(Py.is_str(e)):
                it.raise_(TypeError, "sequence item: expected str instance")
            if i:
                parts.append(Py.s(v))
            parts.append(Py.s(e))
        if not parts:
            return S.mk_str("")
        return Py.str(z3.Concat(*parts) if len(parts) > 1 else parts[0])
    return Py.str(str_join(Py.s(v), s))


def _s_isdigit(it, v, a, k):
    raise Unsupported("str.isdigit")


STR_METHODS = {
    "startswith": _s_startswith,
    "endswith": _s_endswith,
    "replace": _s_replace,
    "lstrip": _s_lstrip,
    "strip": _s_strip,
    "lower": _s_lower,
    "split": _s_split,
    "join": _s_join,
}


def _d_items(it, v, a, k):
    ks, vs = Py.keys(v), Py.vals(v)
    it.assume(z3.Length(ks) == z3.Length(vs))
    n = concrete_len(ks)
    if n is not None:
        for i in range(n):
            it.assume(S.json_key(v, ks[i]))
            it.assume(S.json_child(v, vs[i]))
        return [S.mk_tuple([z3.simplify(ks[i]), z3.simplify(vs[i])]) for i in range(n)]
    return IterSpec(
        ("items", v),
        lambda i: S.mk_tuple([ks[i], vs[i]]),
        lambda i: z3.And(i >= 0, i < z3.Length(ks), S.json_key(v, ks[i]), S.json_child(v, vs[i])),
        z3.Length(ks),
    )


def _d_keys(it, v, a, k):
    ks = Py.keys(v)
    it.assume(z3.Length(ks) == z3.Length(Py.vals(v)))
    n = concrete_len(ks)
    if n is not None:
        for i in range(n):
            it.assume(S.json_key(v, ks[i]))
        return [z3.simplify(ks[i]) for i in range(n)]
    return IterSpec(("seq", ks), lambda i: ks[i], lambda i: z3.And(i >= 0, i < z3.Length(ks), S.json_key(v, ks[i])), z3.Length(ks))


def _d_values(it, v, a, k):
    vs = Py.vals(v)
    it.assume(z3.Length(Py.keys(v)) == z3.Length(vs))
    n = concrete_len(vs)
    if n is not None:
        for i in range(n):
            it.assume(S.json_child(v, vs[i]))
        return [z3.simplify(vs[i]) for i in range(n)]
    return IterSpec(("seq", vs), lambda i: vs[i], lambda i: z3.And(i >= 0, i < z3.Length(vs), S.json_child(v, vs[i])), z3.Length(vs))


def _d_get(it, v, a, k):
    key = T(it, a[0])
    default = a[1] if len(a) > 1 else S.NONE
    if it.branch(unhashable(key)):
        it.raise_(TypeError, "unhashable type")
    j = dict_lookup(it, v, key)
    if it.branch(j >= 0):
        return Py.vals(v)[j]
    return default


DICT_METHODS = {"items": _d_items, "keys": _d_keys, "values": _d_values, "get": _d_get}


def _mut(fn):
    fn.mutator = True
    return fn


@_mut
def _l_append(it, v, a, k):
    return Py.list(z3.Concat(Py.items(v), z3.Unit(it.to_term(a[0]))))


@_mut
def _l_extend(it, v, a, k):
    s = seq_of(it, a[0])
    if s is None:
        raise Unsupported("extend with this iterable")
    return Py.list(z3.Concat(Py.items(v), s))


@_mut
def _l_insert(it, v, a, k):
    idx = T(it, a[0])
    if not it.branch(S.is_intlike(idx)):
        it.raise_(TypeError, "integer argument expected")
    s = Py.items(v)
    n = z3.Length(s)
    i = S.intval(idx)
    # list.insert clamps like slicing
    j = z3.If(i < 0, z3.If(i + n < 0, 0, i + n), z3.If(i > n, n, i))
    return Py.list(z3.Concat(z3.Extract(s, 0, j), z3.Unit(it.to_term(a[1])), z3.Extract(s, j, n - j)))


LIST_METHODS = {"append": _l_append, "extend": _l_extend, "insert": _l_insert}
TUPLE_METHODS = {}


def _nl_empty(it, v, a, k):
    return S.mk_bool(z3.Length(Py.nitems(v)) == 0)


def _nl_values(it, v, a, k):
    raise Unsupported("NodeList.values")


NODELIST_METHODS = {"empty": _nl_empty}


def _concrete_pattern(v):
    t = z3.simplify(v)
    if t.decl().name() == "pattern" and z3.is_string_value(t.arg(0)) and z3.is_int_value(t.arg(1)):
        return S._unescape(t.arg(0).as_string()), t.arg(1).as_long()
    return None


def _p_fullmatch(it, v, a, k):
    s = T(it, a[0])
    if not it.branch(Py.is_str(s)):
        it.raise_(TypeError, "expected string or bytes-like object")
    cp = _concrete_pattern(v)
    if cp is not None:
        from . import regex

        try:
            rx = regex.to_z3(cp[0], cp[1])
            it.assumed.append("lib:re.fullmatch on a concrete pattern == membership in the translated regular language")
            return z3.If(z3.InRe(Py.s(s), rx), S.mk_int(1), S.NONE)
        except regex.NotRegular:
            pass
    return z3.If(re_fullmatch(v, Py.s(s)), S.mk_int(1), S.NONE)  # truthy match object / None


def _p_search(it, v, a, k):
    s = T(it, a[0])
    if not it.branch(Py.is_str(s)):
        it.raise_(TypeError, "expected string or bytes-like object")
    return z3.If(re_search(v, Py.s(s)), S.mk_int(1), S.NONE)


PATTERN_METHODS = {"fullmatch": _p_fullmatch, "search": _p_search}

# abstract methods of objects whose class is not known statically (dynamic dispatch):
# the call site sees only the base-class contract, an uninterpreted function of receiver and arguments.
sel_resolve = z3.Function("sel_resolve", Py, S.SeqPy, S.SeqPy)
expr_evaluate = z3.Function("expr_evaluate", Py, Py, Py)  # (expression, context-term) -> value


def _abs_resolve(it, v, a, k):
    s = seq_of(it, a[0])
    if s is None:
        raise Unsupported("resolve() argument")
    it.assumed.append("contract:JSONPathSelector.resolve(abstract)")
    r = sel_resolve(v, s)
    # what a selector yields are match records of JSON values (postcondition of every resolve contract)
    it.elem_facts = getattr(it, "elem_facts", []) + [(r, MATCH_RECORD)]
    return GenVal([("yieldfrom", r)])


def MATCH_RECORD(m):
    return z3.And(
        Py.is_match(m),
        Py.is_tuple(Py.mparts(m)),
        S.json_value(Py.mobj(m)),
        Py.is_dict(Py.mfc(m)),
        z3.Or(Py.is_none(Py.mparent(m)), Py.is_match(Py.mparent(m))),
    )


def context_term(it, c):
    """FilterContext object -> the tuple of what an expression may read from it."""
    if isinstance(c, SymObj):
        f = c.fields
        return S.mk_tuple([it.to_term(f["current"]), it.to_term(f["root"]), it.to_term(f["extra_context"]), it.to_term(f["current_key"])])
    return it.to_term(c)


def value_kind_facts(r):
    """What any filter expression evaluates to: a JSON value, Nothing, a nodelist of matches,
    a compiled pattern (regex literal) or a list (list literal)."""
    return z3.Or(S.json_value(r), Py.is_undef(r), Py.is_nodelist(r), Py.is_pattern(r))


def _abs_evaluate(it, v, a, k):
    o = it.deref(v) if S.is_term(v) else v
    if isinstance(o, SymObj) and "abs_id" in o.fields:
        v = o.fields["abs_id"]  # behavioural identity: survives copy.copy()
    r = expr_evaluate(v, context_term(it, a[0]))
    it.assume(value_kind_facts(r))
    it.assumed.append("contract:FilterExpression.evaluate(abstract: a function of the expression and the context)")
    return r


ABSTRACT_METHODS = {"resolve": _abs_resolve, "resolve_async": _abs_resolve, "evaluate": _abs_evaluate, "evaluate_async": _abs_evaluate}
ABSTRACT_FIELDS = {}


def abstract_attr(it, obj, name):
    t = it.obj_term(obj)
    if name in ABSTRACT_METHODS:
        return Builtin(name, lambda it_, a, k: ABSTRACT_METHODS[name](it_, t, a, k))
    it.raise_(AttributeError, name)


# --------------------------------------------------------------------------- object construction


def instantiate(it, cls, args, kwargs):
    if issubclass(cls, BaseException):
        return ExcVal(cls, [it.to_term(a) for a in args], dict(kwargs))
    if cls.__name__ == "NodeList" and cls.__module__.startswith("jsonpath"):
        if not args:
            return Py.nodelist(S.EmptySeq)
        s = seq_of(it, args[0])
        if s is None:
            raise Unsupported("NodeList() of this iterable")
        return Py.nodelist(s)
    if cls is slice:
        a = list(args) + [S.NONE] * (3 - len(args))
        if len(args) == 1:
            a = [S.NONE, args[0], S.NONE]
        return SliceVal(*a[:3])
    if issubclass(cls, (dict, list)) and cls.__module__.startswith(("jsonpath", "specs")) and not args and not kwargs:
        owner, init = it.find_method(cls, "__init__")
        if owner in (dict, list, object, None):
            # a subclass of dict / list that adds no constructor: an empty container object of that class
            return it.alloc(cls, {"v": Py.dict(S.EmptySeq, S.EmptySeq) if issubclass(cls, dict) else S.mk_list([])}, origin="FRESH")
    if cls.__module__.startswith(("jsonpath", "specs")):
        obj = it.alloc(cls)
        owner, init = it.find_method(cls, "__init__")
        if owner is not None and owner is not object:
            fv = lookup_function(init)
            fv.owner = owner
            it.call_function(fv, [obj] + list(args), kwargs)
        return obj
    raise Unsupported(f"instantiate {cls.__name__}")


def _super_getattr(it, self_val, owner, name):
    cls = self_val.cls if isinstance(self_val, SymObj) else None
    if isinstance(self_val, ExcVal):
        cls = self_val.cls
    if cls is None:
        raise Unsupported("super() on non-object")
    mro = list(cls.__mro__)
    start = mro.index(owner) + 1
    for k in mro[start:]:
        if name in k.__dict__:
            attr = k.__dict__[name]
            if k is object or not k.__module__.startswith("jsonpath"):
                if name == "__init__":
                    if isinstance(self_val, ExcVal):
                        def set_args(it_, a, kw):
                            self_val.args = [it_.to_term(x) for x in a]
                            return S.NONE
                        return Builtin("BaseException.__init__", set_args)
                    return Builtin("object.__init__", lambda it_, a, kw: S.NONE)
                if name == "__str__" and isinstance(self_val, ExcVal):
                    if k is KeyError:
                        return Builtin("KeyError.__str__", lambda it_, a, kw: Py.str(exc_base_str(it_, ExcVal(KeyError, self_val.args))))
                    return Builtin("BaseException.__str__", lambda it_, a, kw: Py.str(exc_base_str(it_, ExcVal(Exception, self_val.args))))
                raise Unsupported(f"super().{name} resolves to {k.__name__}")
            fv = lookup_function(attr)
            fv.owner = k
            return BoundMethod(self_val, fv)
    raise Unsupported(f"super().{name} not found")


# --------------------------------------------------------------------------- misc builtins


def _suppress(it, a, k):
    classes = []
    for x in a:
        o = x if isinstance(x, ClassVal) else it.deref(x)
        if not isinstance(o, ClassVal):
            raise Unsupported("suppress() argument")
        classes.append(o.cls)
    return ("suppress", classes)


def _getattr(it, a, k):
    name = z3.simplify(T(it, a[1]))
    if not (name.decl().name() == "str" and z3.is_string_value(name.arg(0))):
        raise Unsupported("getattr with symbolic name")
    try:
        return it.getattr(a[0], name.arg(0).as_string())
    except PyRaise as e:
        if e.exc.cls is AttributeError and len(a) > 2:
            return a[2]
        raise


def _hasattr(it, a, k):
    name = z3.simplify(T(it, a[1]))
    try:
        it.getattr(a[0], name.arg(0).as_string())
        return S.TRUE
    except PyRaise as e:
        if e.exc.cls is AttributeError:
            return S.FALSE
        raise


def _any(it, a, k):
    seq = iterate(it, a[0])
    if isinstance(seq, GenVal) and all(i[0] == "yield" for i in seq.items):
        seq = [i[1] for i in seq.items]
    if isinstance(seq, list):
        for x in seq:
            if it.branch(it.truth(x)):
                return S.TRUE
        return S.FALSE
    raise Unsupported("any() over symbolic iterable")


def _all(it, a, k):
    seq = iterate(it, a[0])
    if isinstance(seq, GenVal) and all(i[0] == "yield" for i in seq.items):
        seq = [i[1] for i in seq.items]
    if isinstance(seq, list):
        for x in seq:
            if not it.branch(it.truth(x)):
                return S.FALSE
        return S.TRUE
    raise Unsupported("all() over symbolic iterable")


def _deepcopy(it, a, k):
    v = T(it, a[0])
    it.assumed.append("lib:copy.deepcopy returns an equal, fresh value")
    return ("fresh", v) if False else v


def _copy_copy(it, a, k):
    v = a[0]
    if isinstance(v, SymObj):
        n = it.alloc(v.cls, dict(v.fields), origin="FRESH", abstract=v.abstract)
        return n
    t = T(it, v)
    o = it.deref(t)
    if isinstance(o, SymObj):
        return it.alloc(o.cls, dict(o.fields), origin="FRESH", abstract=o.abstract)
    return t


def _reduce(it, a, k):
    fn, seq = a[0], iterate(it, a[1])
    acc = a[2] if len(a) > 2 else None
    if isinstance(seq, list):
        for x in seq:
            acc = x if acc is None else it.call(fn, [acc, x])
        if acc is None:
            it.raise_(TypeError, "reduce() of empty iterable with no initial value")
        return acc
    # fold rule (DESIGN 2.3 rule 3, lemma `fold_inv`): a fold over an arbitrary finite sequence with a
    # step function under contract is a function of (step, sequence, initial value); two folds
    # with contract-equivalent steps over equal sequences from equal values are equal.
    key = None
    f = fn.func if isinstance(fn, BoundMethod) else fn
    if isinstance(f, FuncVal):
        key = FOLD_IDS.get(f"{f.module.__name__}:{f.qualname}" if f.module else f.qualname)
    if isinstance(seq, IterSpec) and seq.key[0] != "seq" and seq.term is not None:
        seq = seq_iterspec(it, z3.simplify(S.seq_items(seq.term)))
    if key is None or not isinstance(seq, IterSpec) or seq.key[0] != "seq" or acc is None:
        raise Unsupported("reduce over a symbolic sequence with a step that has no fold contract")
    fid, raises = key[0], key[1]
    s_ = seq.key[1]
    a_ = it.to_term(acc)
    which = z3.Function(f"fold_exc!{fid}", S.SeqPy, Py, INT)(s_, a_)
    it.assumed.append(f"rule:fold({fid}) - step contract proved separately")
    it.assume(z3.And(which >= 0, which <= len(raises)))
    it.assume(z3.Implies(z3.Length(s_) == 0, which == 0))
    for n, cls in enumerate(raises):
        if it.branch(which == n + 1):
            raise PyRaise(ExcVal(cls, [S.mk_str("raised by a step of the fold")]))
    val = z3.Function(f"fold_val!{fid}", S.SeqPy, Py, Py)(s_, a_)
    it.assume(z3.Implies(z3.Length(s_) == 0, val == a_))
    if len(key) > 2:
        it.assume(key[2](a_, val))  # postcondition of the step, preserved by the fold
    return val


FOLD_IDS = {}


def _json_loads(it, a, k):
    s = T(it, a[0])
    if not it.branch(Py.is_str(s)):
        raise Unsupported("json.loads of non-str")
    import json

    if it.branch(json_ok(Py.s(s))):
        it.assume(S.json_value(json_loads(Py.s(s))))
        return json_loads(Py.s(s))
    raise PyRaise(ExcVal(json.JSONDecodeError, [S.mk_str("malformed")]))


valid_re = z3.Function("valid_re", STR, z3.BoolSort())
re_fullmatch_s = z3.Function("re_fullmatch_s", STR, STR, z3.BoolSort())
re_search_s = z3.Function("re_search_s", STR, STR, z3.BoolSort())


def _re_fn(ufn, name):
    def f(it, a, k):
        p, s = T(it, a[0]), T(it, a[1])
        if it.branch(Py.is_pattern(p)):
            # a compiled pattern is accepted as the first argument
            if not it.branch(Py.is_str(s)):
                it.raise_(TypeError, "expected string or bytes-like object")
            return z3.If(ufn(Py.psrc(p), Py.s(s)), S.mk_int(1), S.NONE)
        if not it.branch(Py.is_str(p)):
            it.raise_(TypeError, "first argument must be string or compiled pattern")
        if not it.branch(valid_re(Py.s(p))):
            raise PyRaise(ExcVal(re.error, [S.mk_str("bad pattern")]))
        if not it.branch(Py.is_str(s)):
            it.raise_(TypeError, "expected string or bytes-like object")
        it.assumed.append("lib:re (opaque: valid_re / match predicates are uninterpreted)")
        return z3.If(ufn(Py.s(p), Py.s(s)), S.mk_int(1), S.NONE)

    return Builtin(name, f)


def _islice(it, a, k):
    io = as_iterator(it, a[0])
    if io is None:
        io = _iter(it, [a[0]], {})
    rest = io.fields["rest"]
    n = z3.Length(rest)

    def arg(x):
        t = T(it, x)
        if it.branch(Py.is_none(t)):
            return None
        if not it.branch(S.is_intlike(t)):
            it.raise_(ValueError, "Indices for islice() must be None or an integer")
        v = S.intval(t)
        if it.branch(v < 0):
            it.raise_(ValueError, "Indices for islice() must be None or an integer: 0 <= x <= sys.maxsize")
        return v

    if len(a) == 2:
        start, stop = z3.IntVal(0), arg(a[1])
    elif len(a) == 3:
        start, stop = arg(a[1]), arg(a[2])
        if start is None:
            start = z3.IntVal(0)
    else:
        raise Unsupported("islice with a step")
    if stop is None:
        stop = n
    lo = z3.If(start > n, n, start)
    hi = z3.If(stop > n, n, stop)
    hi = z3.If(hi < lo, lo, hi)
    taken = z3.Extract(rest, lo, hi - lo)
    # everything up to max(start, stop) is consumed from the underlying iterator
    used = z3.If(hi > lo, hi, lo)
    io.fields["rest"] = z3.Extract(rest, used, n - used)
    it.assumed.append("lib:itertools.islice (eager model, equal under iterator ownership)")
    return new_iterator(it, taken)


def _deque(it, a, k):
    rest = seq_of(it, a[0])
    if rest is None:
        raise Unsupported("deque() of this iterable")
    maxlen = k.get("maxlen", a[1] if len(a) > 1 else S.NONE)
    m = T(it, maxlen)
    n = z3.Length(rest)
    it.assumed.append("lib:collections.deque(iterable, maxlen)")
    if it.branch(Py.is_none(m)):
        return Py.list(rest)
    if not it.branch(S.is_intlike(m)):
        it.raise_(TypeError, "an integer is required")
    mv = S.intval(m)
    if it.branch(mv < 0):
        it.raise_(ValueError, "maxlen must be non-negative")
    lo = z3.If(n - mv > 0, n - mv, 0)
    return Py.list(z3.Extract(rest, lo, n - lo))


def _tee(it, a, k):
    rest = seq_of(it, a[0])
    if rest is None:
        raise Unsupported("tee() of this iterable")
    n = T(it, a[1]) if len(a) > 1 else S.mk_int(2)
    nv = z3.simplify(S.intval(n))
    it.assumed.append("lib:itertools.tee")
    if not z3.is_int_value(nv):
        if it.branch(nv < 0):
            it.raise_(ValueError, "n must be >= 0")
        raise Unsupported("tee with a symbolic count")
    if nv.as_long() < 0:
        it.raise_(ValueError, "n must be >= 0")
    return [new_iterator(it, rest) for _ in range(nv.as_long())]


def _chain(it, a, k):
    """itertools.chain(*iterables): the items of each, in order.  Laziness is not modelled: generator
    expressions among the operands are evaluated when the chain is consumed by seq_of (their cell
    semantics is kept by LazyGen), other operands are item sequences already."""
    parts = []
    for x in a:
        if isinstance(x, LazyGen):
            raise Unsupported("chain() over an unevaluated generator expression (its evaluation time is not modelled)")
        if isinstance(x, GenVal):
            if x.pending_exc is not None:
                raise Unsupported("chain() over a generator that raises")
            parts.extend(x.items)
            continue
        sq = seq_of(it, x)
        if sq is None:
            raise Unsupported("chain() of this iterable")
        parts.append(("yieldfrom", sq))
    it.assumed.append("lib:itertools.chain (items of each operand in order)")
    return GenVal(parts)


sorted_seq = z3.Function("sorted_seq", S.SeqPy, S.SeqPy)


def _sorted(it, a, k):
    """sorted(iterable) without key/reverse: an uninterpreted permutation of the items (same length;
    a sequence of at most one item is itself).  ASSUMED not to raise: the items are mutually comparable."""
    if k:
        raise Unsupported("sorted() with key / reverse")
    s = seq_of(it, a[0])
    if s is None:
        raise Unsupported("sorted() of this iterable")
    r = sorted_seq(s)
    if isinstance(a[0], IterSpec):
        sample = z3.simplify(it.to_term(a[0].elem(z3.Int("i!probe"))))
        if sample.decl().name() == "tuple" and concrete_len(Py.titems(sample)) is not None:
            n_ = concrete_len(Py.titems(sample))
            # a permutation of tuples of a known width is made of tuples of that width
            it.elem_facts = getattr(it, "elem_facts", []) + [(r, lambda e, n_=n_: z3.And(Py.is_tuple(e), z3.Length(Py.titems(e)) == n_))]
    it.assume(z3.Length(r) == z3.Length(s))
    it.assume(z3.Implies(z3.Length(s) <= 1, r == s))
    it.assumed.append("lib:sorted (uninterpreted permutation; comparability of the items assumed)")
    for q, f in list(getattr(it, "elem_facts", [])):
        if z3.eq(z3.simplify(q), z3.simplify(s)):
            it.elem_facts = it.elem_facts + [(r, f)]
    return Py.list(r)


def _filter(it, a, k):
    fn, src = a
    if not (isinstance(fn, Builtin) and fn.name == "bool"):
        raise Unsupported("filter() with a function other than bool")
    seq = iterate(it, src)
    if isinstance(seq, (GenVal, LazyGen)):
        s_ = seq_of(it, seq)
        seq = iterate(it, Py.list(s_))
    if isinstance(seq, list):
        return [x for x in seq if it.branch(it.truth(x))]
    if isinstance(seq, IterSpec):
        saved = it.trace
        it.trace = []
        node = ast.parse("for __x in __s:\n    if __x:\n        yield __x").body[0]
        fr = Frame(None, None)
        fr.vars["__s"] = seq
        it.run_loop(node.target, seq, node.body, [], fr)
        items = it.trace
        it.trace = saved
        return GenVal(items)
    raise Unsupported("filter over this iterable")


_BUILTINS = None


def _table():
    global _BUILTINS
    if _BUILTINS is None:
        import copy
        import json

        _BUILTINS = {
            id(builtins.len): Builtin("len", _len),
            id(builtins.isinstance): Builtin("isinstance", _isinstance),
            id(builtins.str): Builtin("str", _str),
            id(builtins.repr): Builtin("repr", _repr),
            id(builtins.int): Builtin("int", _int),
            id(builtins.bool): Builtin("bool", _bool),
            id(builtins.abs): Builtin("abs", _abs),
            id(builtins.list): Builtin("list", _list),
            id(builtins.tuple): Builtin("tuple", _tuple),
            id(builtins.dict): Builtin("dict", _dict),
            id(builtins.iter): Builtin("iter", _iter),
            id(builtins.next): Builtin("next", _next),
            id(builtins.enumerate): Builtin("enumerate", _enumerate),
            id(builtins.zip): Builtin("zip", _zip),
            id(builtins.range): Builtin("range", _range),
            id(builtins.getattr): Builtin("getattr", _getattr),
            id(builtins.hasattr): Builtin("hasattr", _hasattr),
            id(builtins.any): Builtin("any", _any),
            id(builtins.filter): Builtin("filter", _filter),
            id(builtins.sorted): Builtin("sorted", _sorted),
            id(itertools.islice): Builtin("islice", _islice),
            id(itertools.tee): Builtin("tee", _tee),
            id(itertools.chain): Builtin("chain", _chain),
            id(collections.deque): Builtin("deque", _deque),
            id(builtins.min): Builtin("min", _minmax(True)),
            id(builtins.max): Builtin("max", _minmax(False)),
            id(builtins.all): Builtin("all", _all),
            id(operator.getitem): Builtin("getitem", lambda it, a, k: getitem(it, a[0], a[1])),
            id(contextlib.suppress): Builtin("suppress", _suppress),
            id(copy.deepcopy): Builtin("deepcopy", _deepcopy),
            id(copy.copy): Builtin("copy", _copy_copy),
            id(functools.reduce): Builtin("reduce", _reduce),
            id(json.loads): Builtin("json.loads", _json_loads),
            id(re.fullmatch): _re_fn(re_fullmatch_s, "re.fullmatch"),
            id(re.search): _re_fn(re_search_s, "re.search"),
        }
    return _BUILTINS


_KEEP_AS_CLASS = (
    cabc.Mapping,
    cabc.MutableMapping,
    cabc.Sequence,
    cabc.MutableSequence,
    io.IOBase,
    re.Pattern,
    float,
    type(None),
)


def builtin_for(pyobj):
    t = _table()
    b = t.get(id(pyobj))
    if b is not None:
        return b
    return None


_SINGLETON_REFS = {}


def singleton_for(it, pyobj):
    """Module-level singleton instances of jsonpath classes."""
    cls = type(pyobj)
    if cls.__module__ == "jsonpath.filter" and cls.__name__ == "_Undefined":
        return S.UNDEF
    if cls.__module__.startswith("jsonpath") or cls is object:
        key = ("singleton", id(pyobj))
        if key not in it.singletons:
            # module-level singletons keep one heap reference per process, so that the two sides
            # of a comparison (separate interpreters) denote the same object by the same term
            ref = _SINGLETON_REFS.setdefault(id(pyobj), 100 + len(_SINGLETON_REFS))
            o = SymObj(cls, {}, ref, "QUERY")
            it.heap[ref] = o
            for name in getattr(cls, "__slots__", ()):
                if hasattr(pyobj, name):
                    try:
                        o.fields[name] = it.lift(getattr(pyobj, name), name)
                    except Unsupported:
                        pass
            if hasattr(pyobj, "__dict__"):
                for name, val in vars(pyobj).items():
                    try:
                        o.fields[name] = it.lift(val, name)
                    except Unsupported:
                        pass
            it.singletons[key] = (o.ref, o)
        return it.singletons[key][1]
    if isinstance(pyobj, re.Pattern):
        return Py.pattern(z3.StringVal(pyobj.pattern), z3.IntVal(pyobj.flags))
    if isinstance(pyobj, dict):
        return it.to_term({k: it.lift(v) for k, v in pyobj.items()}) if all(isinstance(k, (str, int)) for k in pyobj) else None
    if isinstance(pyobj, (list,)):
        return it.to_term([it.lift(v) for v in pyobj])
    import enum

    if isinstance(pyobj, enum.Enum):
        return S.mk_str(f"<enum {cls.__name__}.{pyobj.name}>")
    return None


def _mro_names(cls):
    names = set()
    for k in cls.__mro__:
        if k is object:
            continue
        names.update(k.__dict__)
    return names

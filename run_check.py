#!/usr/bin/env python3
"""./check <Cnn> [--tier quick|thorough] [--replay file]

Decides one property on /repo's current working tree:
  * deductive part (P): every contract serving the property is verified by pyvc
    (obligations generated from the real source, discharged by z3);
  * bounded part (B): the same specs run against the real functions over a stated universe
    (monitors/), labelled bounded and never counted as proved.

Exit 0 held - 1 violation (VIOLATION line) - 2 undecided - 3 checker error.
"""
from __future__ import annotations

import argparse
import importlib
import json
import multiprocessing as mp
import os
import sys
import time
import traceback

HERE = os.path.dirname(os.path.abspath(__file__))
REPO = os.environ.get("VERIF_REPO", "/repo")
# development aid (tools/run_seeded.py): evidence of runs against a scratch tree goes elsewhere
EVIDENCE_DIR = os.environ.get("VERIF_EVIDENCE_DIR") or os.path.join(os.path.dirname(os.path.abspath(__file__)), "evidence")
sys.path.insert(0, HERE)
sys.path.insert(0, REPO)
os.environ.setdefault("JSONPATH_VERIF", "1")


def _run_contract(args):
    name, carve_ids, timeout_ms = args
    from pyvc import harness

    harness.load_all_contracts()
    from contracts import carveouts

    fns = [carveouts.CARVEOUTS[c] for c in carve_ids]
    return harness.run_contract(name, fns, timeout_ms)


def _run_monitor(args):
    modname, tier, seed = args
    t = time.time()
    try:
        mod = importlib.import_module(modname)
        res = mod.run(tier, seed)
        res["monitor"] = modname
        res["wall_s"] = round(time.time() - t, 2)
        return res
    except Exception as e:  # noqa: BLE001
        return {"monitor": modname, "error": f"{type(e).__name__}: {e}\n{traceback.format_exc()[-2000:]}", "wall_s": round(time.time() - t, 2)}


def _child(fn, arg, conn, env):
    os.environ.update(env)
    if env.get("PYVC_NO_MODEL_REUSE"):
        try:
            from pyvc import interp as _i

            _i.MODEL_REUSE = False
        except Exception:  # noqa: BLE001
            pass
    try:
        conn.send(fn(arg))
    except BaseException as e:  # noqa: BLE001
        conn.send({"__worker_error__": f"{type(e).__name__}: {e}\n{traceback.format_exc()[-1500:]}"})
    finally:
        conn.close()


def run_jobs(jobs, nproc, timeout_s):
    """One forked process per job (at most nproc at a time), each with a wall-clock limit.  A worker
    that dies (z3 can crash natively) or overruns is reported as such for ITS job only - a pool would
    wait for ever.  jobs: list of (key, fn, arg).  Returns {key: result | {"__crashed__": why}}."""
    ctx = mp.get_context("fork")
    pending = list(jobs)
    running = {}  # key -> (proc, conn, started, fn, arg, attempt)
    out = {}

    def start(key, fn, arg, attempt):
        parent, child = ctx.Pipe(duplex=False)
        env = {"PYVC_NO_MODEL_REUSE": "1"} if attempt else {}
        p = ctx.Process(target=_child, args=(fn, arg, child, env), daemon=True)
        p.start()
        child.close()
        running[key] = (p, parent, time.time(), fn, arg, attempt)

    while pending or running:
        while pending and len(running) < nproc:
            key, fn, arg = pending.pop(0)
            start(key, fn, arg, 0)
        time.sleep(0.02)
        for key in list(running):
            p, conn, started, fn, arg, attempt = running[key]
            got = None
            try:
                if conn.poll(0):
                    got = conn.recv()
            except (EOFError, OSError):
                got = None
            if got is not None:
                out[key] = got
                p.join(5)
                if p.is_alive():
                    p.kill()
                conn.close()
                del running[key]
                continue
            if not p.is_alive():
                # died without an answer: a native crash.  Once more without model reuse (the known
                # trigger), then give up on this job only.
                conn.close()
                del running[key]
                if attempt == 0:
                    start(key, fn, arg, 1)
                else:
                    out[key] = {"__crashed__": f"worker exited with code {p.exitcode} twice (second time with model reuse off)"}
                continue
            if time.time() - started > timeout_s:
                p.kill()
                p.join(5)
                conn.close()
                del running[key]
                out[key] = {"__crashed__": f"no answer within {timeout_s} s (killed)"}
    return out


def load_findings():
    with open(os.path.join(HERE, "known_findings.json"), encoding="utf-8") as fd:
        return json.load(fd)


def main():  # noqa: PLR0912, PLR0915
    ap = argparse.ArgumentParser()
    ap.add_argument("prop")
    ap.add_argument("--tier", default=os.environ.get("VERIF_TIER", "quick"))
    ap.add_argument("--replay")
    ap.add_argument("--jobs", type=int, default=min(16, os.cpu_count() or 4))
    ap.add_argument("--rebaseline", action="store_true", help="record which contracts are fully discharged on this (reference) tree")
    a = ap.parse_args()
    if a.replay:
        os.execv("/venv/bin/python", ["/venv/bin/python", a.replay])
    prop = a.prop
    tier = a.tier if a.tier in ("quick", "thorough") else "quick"
    seed = int(os.environ.get("VERIF_SEED", "0") or 0)
    t0 = time.time()

    from pyvc import harness

    try:
        harness.load_all_contracts()
        from contracts import carveouts
        import monitors

        findings = load_findings()
    except Exception:  # noqa: BLE001
        traceback.print_exc()
        print(f"CHECKER-ERROR property={prop}")
        return 3

    open_findings = [f for f in findings["findings"] if f["property"] == prop and f["status"] == "open"]
    names = sorted(n for n, c in harness.REGISTRY.items() if prop in c.props and (tier == "thorough" or c.tier == "quick"))
    skipped = sorted(n for n, c in harness.REGISTRY.items() if prop in c.props and tier == "quick" and c.tier != "quick")
    timeout_ms = 10000 if tier == "quick" else 20000
    try:
        with open(os.path.join(HERE, "baseline_obligations.json"), encoding="utf-8") as fd:
            ledger_before = json.load(fd)
    except (OSError, ValueError):
        ledger_before = {}
    jobs = []
    for n in names:
        carve_ids = [f["carveout"] for f in findings["findings"] if f["status"] == "open" and n in f.get("contracts", []) and f.get("carveout")]
        # an open proof attempt (never discharged on the reference tree) gets a small budget: it is not
        # counted either way, and its replayable counterexamples show up quickly if there are any
        open_attempt = ledger_before.get(n, {}).get("status") not in (None, "proved")
        jobs.append((n, carve_ids, 3000 if open_attempt else timeout_ms))
    mon_jobs = [(m, tier, seed) for m in monitors.MONITORS.get(prop, [])]

    limit = int(os.environ.get("VERIF_JOB_TIMEOUT", "1500" if tier == "quick" else "14400"))
    answers = run_jobs([(("c", j[0]), _run_contract, j) for j in jobs] + [(("m", j[0]), _run_monitor, j) for j in mon_jobs], a.jobs, limit)
    results, mon_results = [], []
    for j in jobs:
        r = answers[("c", j[0])]
        if "__crashed__" in r or "__worker_error__" in r:
            why = r.get("__crashed__") or r.get("__worker_error__")
            r = {"contract": j[0], "props": [prop], "functions": [], "status": "error", "obligations": 0, "discharged": 0, "refuted": [], "unknown": [], "unsupported": f"worker: {why}",
                 "paths": 0, "solver_s": 0.0, "wall_s": 0.0, "assumed": [], "samples": []}
        results.append(r)
    for j in mon_jobs:
        r = answers[("m", j[0])]
        if "__crashed__" in r or "__worker_error__" in r:
            r = {"monitor": j[0], "error": "worker: " + (r.get("__crashed__") or r.get("__worker_error__")), "wall_s": 0.0}
        mon_results.append(r)

    if a.rebaseline:
        path = os.path.join(HERE, "baseline_obligations.json")
        try:
            with open(path, encoding="utf-8") as fd:
                base = json.load(fd)
        except OSError:
            base = {}
        for r in results:
            base[r["contract"]] = {"status": r["status"], "obligations": r["obligations"], "tier": tier}
        with open(path, "w", encoding="utf-8") as fd:
            json.dump(base, fd, indent=1, sort_keys=True)
        print(f"baseline ledger updated for {len(results)} contracts of {prop}")
    os.makedirs(os.path.join(HERE, "replays"), exist_ok=True)
    os.makedirs(EVIDENCE_DIR, exist_ok=True)
    violations = []  # (what, replay path, tail)
    known_lines = []
    undecided = []
    errors = []
    obligations = discharged = 0
    solver_s = 0.0
    functions = {}
    assumed = set()
    samples = []
    contracts_report = []

    # ---- deductive part
    attempted = []  # contracts that have never been fully discharged on the reference tree: reported, not counted
    for r in results:
        solver_s += r["solver_s"]
        if r["status"] not in ("proved", "error") and ledger_before.get(r["contract"], {}).get("status") != "proved":
            # not a regression: this contract is an open proof attempt (slow string reasoning, an unmodelled
            # construct).  It neither counts as proved nor makes the check fail; a counterexample that
            # replays on the real code is still a violation.
            attempted.append({"contract": r["contract"], "status": r["status"], "obligations": r["obligations"], "discharged": r["discharged"],
                              "undecided": len(r["unknown"]), "refuted_without_replay": sum(1 for x in r["refuted"] if not x.get("replayed")), "note": (r["unsupported"] or "")[:200]})
            for x in r["refuted"]:
                if x.get("replayed"):
                    path = write_replay(prop, r["contract"], x)
                    violations.append((f"{r['contract']}: {x['obligation']}: {x['replayed']}"[:600], path, ""))
            continue
        obligations += r["obligations"]
        discharged += r["discharged"]
        for f in r["functions"]:
            functions[f["function"]] = f
        assumed.update(r["assumed"])
        samples.extend(r["samples"][:1])
        contracts_report.append(
            {k: r[k] for k in ("contract", "status", "obligations", "discharged", "paths", "wall_s", "solver_s")}
            | {"refuted": len(r["refuted"]), "unknown": len(r["unknown"]), "note": (r["unsupported"] or "")[:300]}
        )
        if r["status"] == "error":
            errors.append(f"{r['contract']}: {r['unsupported']}")
        elif r["status"] in ("unsupported", "vacuous"):
            undecided.append(f"{r['contract']}: {r['status']} {r['unsupported'] or ''}"[:400])
        for x in r["unknown"]:
            undecided.append(f"{r['contract']}: obligation {x['obligation']} undecided by the solver")
        for x in r["refuted"]:
            path = write_replay(prop, r["contract"], x)
            if x.get("replayed"):
                violations.append((f"{r['contract']}: {x['obligation']}: {x['replayed']}"[:600], path, ""))
            elif x.get("abstraction_only"):
                undecided.append(f"{r['contract']}: obligation {x['obligation']}: the two sides were summarised by different abstractions (loops not recognised as the same loop, or different compositions of uninterpreted string functions) and no input of the witness search separates them on the real code: proof failure, no counterexample")
            elif baseline_has(prop, r["contract"], x["obligation"]):
                violations.append((f"{r['contract']}: obligation {x['obligation']} ({x['note']}) was discharged on the reference tree and now fails", path, " no-failing-input-found"))
            else:
                undecided.append(f"{r['contract']}: obligation {x['obligation']} refuted by the solver but the model does not replay on the real code")

    # ---- known findings: the recorded witness must still fail
    for f in open_findings:
        try:
            still = carveouts.witness_fails(f)
        except Exception as e:  # noqa: BLE001
            errors.append(f"witness of {f['id']}: {type(e).__name__}: {e}")
            continue
        if still:
            known_lines.append(f"KNOWN-FINDING: property={prop} {f['id']}: {f['what']}")

    # ---- bounded part
    bounded = []
    for m in mon_results:
        if "error" in m:
            errors.append(f"{m['monitor']}: {m['error']}")
            continue
        bounded.append({k: m.get(k) for k in ("monitor", "bound", "evaluations", "distinct_nontrivial", "wall_s", "exhaustive")} | {"failures": len(m.get("failures", []))})
        samples.extend(m.get("samples", [])[:2])
        seen_known = set()
        for fail in m.get("failures", []):
            fid = fail.get("finding")
            match = next((f for f in open_findings if f["id"] == fid), None)
            if match is not None:
                if fid not in seen_known and not any(fid in k for k in known_lines):
                    known_lines.append(f"KNOWN-FINDING: property={prop} {fid}: {match['what']}")
                seen_known.add(fid)
                continue
            path = write_bounded_replay(prop, m["monitor"], fail)
            violations.append((f"{m['monitor']}: {fail['what']}"[:600], path, ""))

    # ---- the list lemmas behind the loop rules (and the C11 spec-level link), re-checked by Lean
    lemma_note = check_lemmas() if any(x.startswith("rule:") for x in assumed) or prop == "C11" else None
    if lemma_note is not None:
        if lemma_note.startswith("FAILED"):
            errors.append("lemmas/Rules.lean: " + lemma_note)
        assumed.add("lemmas/Rules.lean (foreach_congr, fold_congr, filter_keeps, append_keeps, values_of_compound): " + lemma_note)

    # ---- the string laws of the pointer text codec (enc/dec/split/join), proved in Lean; the model of the
    # three library functions is compared with CPython in the same run
    if any(c["contract"] in ("JSONPointer._encode==pointer_text", "JSONPointer._parse==parse_text", "JSONPointer.__truediv__==join_tokens") for c in contracts_report):
        note = check_pointer_text_lemmas()
        if note.startswith("FAILED"):
            errors.append("lemmas/PointerText.lean: " + note)
        assumed.add("lemmas/PointerText.lean (dec_enc, enc_no_slash, split_join, join_split, parse_text, text_injective, enc_dec, text_parse; str.replace / split / join modelled on List Char): " + note)

    wall = time.time() - t0
    level = "proof" if (obligations > 0 and obligations == discharged and not undecided and not errors) else "other"
    # a property whose deciding step is the bounded part (MANIFEST category "other") stays at that level
    # even when the contracts that exist for it are all discharged: they cover a part, not the claim
    try:
        with open(os.path.join(HERE, "MANIFEST.json"), encoding="utf-8") as fd:
            claimed = {c.get("property_id"): (c.get("level_claimed") or {}).get("category") for c in json.load(fd).get("checks", [])}
        if claimed.get(prop) == "other":
            level = "other"
    except (OSError, ValueError):
        pass
    evidence = {
        "property_id": prop,
        "tier": tier,
        "seed": seed,
        "level": level,
        "coverage": {
            "obligations": obligations,
            "discharged": discharged,
            "checker_cmd": f"./check {prop} --tier {tier}",
            "trusted_base": [
                "pyvc VC generator (path enumeration, foreach/range/fold rules) and the Py value encoding (DESIGN 3)",
                "pyvc/lib.py: assumed contracts of Python builtins/stdlib, cross-checked against CPython by monitors/libcheck.py",
                "specs/: transcription of RFC 9535 / 6901 / 6902 / relative-json-pointer draft",
                "z3 5.1.0 (python API); mathematical integers (exact for Python ints); floats as reals",
            ],
            "explanation": "P = obligations generated from the real source of the functions under contract and discharged by z3 (unbounded); "
            "B = the same spec functions executed against the real functions over the stated bounded universes (never counted as proved). "
            f"This run: {obligations} obligations, {discharged} discharged, {len(undecided)} undecided items, {len(bounded)} bounded monitors.",
            "functions_under_contract": sorted(functions.values(), key=lambda f: f["function"]),
            "contracts": contracts_report,
            "solver_s": round(solver_s, 3),
            "backend": "z3 5.1.0 python API",
            "bounded": bounded,
            "evaluations": sum(b["evaluations"] or 0 for b in bounded) + obligations,
            "distinct_nontrivial": sum(b["distinct_nontrivial"] or 0 for b in bounded) + discharged,
            "rule": "deductive: one obligation per feasible pair of (code path, spec path) and per compared value; bounded: see each monitor's bound",
            "samples": samples[:8] or [{"note": "no samples"}],
            "undecided": undecided[:40],
            "contracts_only_in_thorough_tier": skipped,
            "attempted_not_discharged_on_the_reference_tree": attempted,
            "known_findings": [f["id"] for f in open_findings],
        },
        "assumptions": sorted(assumed)
        + [f"known finding carved out of the precondition: {f['id']} ({f.get('carveout')})" for f in open_findings if f.get("carveout")],
        "wall_s": round(wall, 2),
        "violations": len(violations),
    }
    with open(os.path.join(EVIDENCE_DIR, f"{prop}.json"), "w", encoding="utf-8") as fd:
        json.dump(evidence, fd, indent=1, default=str)

    for line in known_lines:
        print(line)
    print(
        f"{prop} tier={tier}: contracts={len(results)} obligations={obligations} discharged={discharged} "
        f"undecided={len(undecided)} bounded_monitors={len(bounded)} bounded_evals={sum(b['evaluations'] or 0 for b in bounded)} "
        f"violations={len(violations)} wall={wall:.1f}s"
    )
    for t_ in attempted[:12]:
        print(f"  ATTEMPTED (not counted) {t_['contract']}: {t_['status']}, {t_['discharged']}/{t_['obligations']} obligations discharged")
    for u in undecided[:20]:
        print("  UNDECIDED", u)
    for e in errors[:10]:
        print("  CHECKER-ERROR", e[:1500])
    if violations:
        for what, path, tail in violations[:6]:
            print(f"  {what}")
            print(f"VIOLATION property={prop} replay={path}{tail}")
        return 1
    if errors:
        return 3
    if obligations == 0 and not bounded:
        print("  no obligation and no bounded check ran: vacuous")
        return 3
    if undecided:
        return 2
    return 0


def check_lemmas():
    """Run core Lean on lemmas/Rules.lean (about 1 s).  The lemmas are the mathematical content of the
    loop rules, not their implementation: what they cover is stated in DESIGN 11.2."""
    import shutil
    import subprocess

    exe = shutil.which("lean")
    if exe is None:
        return "NOT re-checked in this run (no `lean` on PATH): assumed"
    try:
        r = subprocess.run([exe, os.path.join(HERE, "lemmas", "Rules.lean")], capture_output=True, text=True, timeout=300, check=False)
    except Exception as e:  # noqa: BLE001
        return f"NOT re-checked in this run ({type(e).__name__}): assumed"
    if r.returncode == 0 and "error" not in r.stdout and "sorry" not in r.stdout:
        return "re-checked by Lean 4 in this run (exit 0, no sorry)"
    return "FAILED: " + (r.stdout + r.stderr)[-600:]


def check_pointer_text_lemmas():
    """Run core Lean on lemmas/PointerText.lean and compare what its model of str.replace / split / join
    prints (`#eval`, every string over {~ / 0 1 a} up to length 6) with CPython."""
    import shutil
    import subprocess

    exe = shutil.which("lean")
    if exe is None:
        return "NOT re-checked in this run (no `lean` on PATH): assumed"
    try:
        r = subprocess.run([exe, os.path.join(HERE, "lemmas", "PointerText.lean")], capture_output=True, text=True, timeout=600, check=False)
    except Exception as e:  # noqa: BLE001
        return f"NOT re-checked in this run ({type(e).__name__}): assumed"
    lines = [ln[6:] for ln in r.stdout.splitlines() if ln.startswith("MODEL ")]
    rest = [ln for ln in r.stdout.splitlines() if not ln.startswith("MODEL ")]
    if r.returncode != 0 or any("error" in ln or "sorry" in ln for ln in rest):
        return "FAILED: " + ("\n".join(rest) + r.stderr)[-600:]
    if len(lines) != sum(5**k for k in range(7)):
        return f"FAILED: the model printed {len(lines)} lines"

    def enc(t):
        return t.replace("~", "~0").replace("/", "~1")

    def dec(t):
        return t.replace("~1", "/").replace("~0", "~")

    for ln in lines:
        f = ln.split("|")
        t = f[0]
        want = [t, t.replace("~", "~0"), t.replace("/", "~1"), t.replace("~1", "/"), t.replace("~0", "~"), ",".join(t.split("/")), "/".join(t.split("a")), enc(t), dec(t), ",".join([dec(x) for x in t.split("/")][1:])]
        if f != want:
            return f"FAILED: the Lean model of the string library disagrees with CPython on {t!r}: {f} vs {want}"
    return f"re-checked by Lean 4 in this run (exit 0, no sorry); its model of str.replace/split/join agrees with CPython on {len(lines)} strings (bounded cross-check of the library assumption)"


def baseline_has(prop, contract, obligation):
    """True when the committed ledger records this contract as fully discharged on the reference
    tree: a refuted obligation is then a regression even without a replayable input."""
    try:
        with open(os.path.join(HERE, "baseline_obligations.json"), encoding="utf-8") as fd:
            base = json.load(fd)
    except OSError:
        return False
    return base.get(contract, {}).get("status") == "proved"


def _slug(s):
    return "".join(ch if ch.isalnum() else "_" for ch in s)[:80]


def write_replay(prop, contract, x):
    path = os.path.join(HERE, "replays", f"{prop}_{_slug(contract)}_{_slug(x['obligation'])[-40:]}.py")
    body = f'''#!/venv/bin/python
"""Replay of a failed obligation.
property   : {prop}
contract   : {contract}
obligation : {x["obligation"]}
kind/note  : {x["kind"]} / {x["note"]}
verifier   : z3 returned sat for (premises and not goal); counter-model concretised below.
replayed   : {x.get("replayed")!r}
"""
import json, os, sys
sys.path.insert(0, {HERE!r}); sys.path.insert(0, os.environ.get("VERIF_REPO", {REPO!r}))
from contracts import replay
INPUTS = json.loads({json.dumps(json.dumps(x["inputs"]))})
REPLAY = {x.get("replay_fn")!r}
print("obligation:", {x["obligation"]!r})
print("inputs:", INPUTS)
if REPLAY is None:
    print("no replay function for this contract; verifier output only"); sys.exit(2)
r = replay.run(REPLAY[0], REPLAY[1], INPUTS)
print("real code:", r if r else "does not reproduce on this tree")
sys.exit(1 if r else 0)
'''
    with open(path, "w", encoding="utf-8") as fd:
        fd.write(body)
    return path


def write_bounded_replay(prop, monitor, fail):
    path = os.path.join(HERE, "replays", f"{prop}_{_slug(monitor)}_{_slug(fail.get('key', fail['what']))[-50:]}.py")
    body = f'''#!/venv/bin/python
"""Replay of a bounded-check failure.
property : {prop}
monitor  : {monitor}
what     : {fail["what"]}
"""
import sys
sys.path.insert(0, {HERE!r}); sys.path.insert(0, {REPO!r})
{fail.get("replay", "print('no stand-alone replay recorded'); sys.exit(2)")}
'''
    with open(path, "w", encoding="utf-8") as fd:
        fd.write(body)
    return path


if __name__ == "__main__":
    sys.exit(main())

"""C12 engine cross-check (bounded): chains of query-iterator operations against plain list
operations, all chains of length <= 3 (quick) / 4 (thorough) over the operations with counts
-1 .. len+1 on match sequences of length 0..5; plus consumption-order independence of take / tee."""
from __future__ import annotations

import itertools

import jsonpath
from monitors import universe as U

OPS_N = ["limit", "head", "first", "skip", "drop", "tail", "last", "take"]
OPS_0 = ["first_one", "one", "last_one"]
VIEWS = ["values", "locations", "items", "pointers"]


def model_step(v, op, n):
    """list semantics: returns (new remaining list of the query we continue with, leftover of the original)"""
    if op in ("limit", "head", "first"):
        return v[:n]
    if op in ("skip", "drop"):
        return v[n:]
    if op in ("tail", "last"):
        return v[max(len(v) - n, 0):]
    if op == "take":
        return v[:n]
    raise ValueError(op)


def run(tier, seed):
    maxlen = 3 if tier == "quick" else 4
    rec = U.Recorder(f"all chains of length <= {maxlen} over {len(OPS_N)} counted operations with counts -1..len+1, sequences of length 0..5; terminal views and first_one/one/last_one; take/tee consumption orders")
    env = jsonpath.JSONPathEnvironment()
    for size in range(0, 6):
        doc = list(range(100, 100 + size))
        base = list(doc)
        counts = list(range(-1, size + 2))
        for length in range(1, maxlen + 1):
            for chain in itertools.product(OPS_N, repeat=length):
                for ns in itertools.product(counts, repeat=length) if length <= 2 else [tuple(counts[(i * 3 + j) % len(counts)] for j in range(length)) for i in range(len(counts))]:
                    q = env.query("$[*]", doc)
                    v = list(base)
                    err = None
                    cur = q
                    for op, n in zip(chain, ns):
                        try:
                            nxt = getattr(cur, op)(n)
                        except ValueError:
                            err = ("ValueError", op, n)
                            if n >= 0:
                                err = ("unexpected ValueError", op, n)
                            break
                        if n < 0:
                            err = ("no ValueError for a negative count", op, n)
                            break
                        v = model_step(v, op, n)
                        cur = nxt
                    if err is not None and err[0] == "ValueError":
                        # a refused operation changes nothing
                        got = [m.obj for m in cur]
                        if got == v:
                            rec.ok()
                        else:
                            rec.fail(f"{chain}{ns}{size}", f"$[*] on {doc}: chain {list(zip(chain, ns))}: after the refused {err[1]}({err[2]}) the query yields {got}, expected unchanged {v}", "sys.exit(2)")
                        continue
                    if err is not None:
                        rec.fail(f"{chain}{ns}{size}", f"$[*] on {doc}: chain {list(zip(chain, ns))}: {err[0]} at {err[1]}({err[2]})", "sys.exit(2)")
                        continue
                    got = [m.obj for m in cur]
                    if got == v:
                        rec.ok((chain, ns, size) if 0 < len(v) < size else None, {"document": doc, "chain": [f"{o}({n})" for o, n in zip(chain, ns)], "result": v} if 0 < len(v) < size else None)
                    else:
                        code = "q = jsonpath.query('$[*]', %r)\n" % (doc,) + "".join(f"q = q.{o}({n})\n" for o, n in zip(chain, ns))
                        rec.fail(f"{chain}{ns}{size}", f"$[*] on {doc}: chain {[f'{o}({n})' for o, n in zip(chain, ns)]} yields {got}, list slicing gives {v}",
                                 f"import jsonpath\n{code}got = [m.obj for m in q]\nprint(got, {v!r}); sys.exit(0 if got == {v!r} else 1)")
        # terminal operations and views
        for n in counts:
            if n < 0:
                continue
            for pre in ("skip", "limit", "tail"):
                v = model_step(list(base), pre, n)
                q = getattr(env.query("$[*]", doc), pre)(n)
                ms = list(jsonpath.finditer("$[*]", doc))
                want_first = v[0] if v else None
                f = getattr(env.query("$[*]", doc), pre)(n).first_one()
                l = getattr(env.query("$[*]", doc), pre)(n).last_one()
                o = getattr(env.query("$[*]", doc), pre)(n).one()
                ok = (f.obj if f else None) == want_first and (o.obj if o else None) == want_first and (l.obj if l else None) == (v[-1] if v else None)
                vals = list(getattr(env.query("$[*]", doc), pre)(n).values())
                locs = list(getattr(env.query("$[*]", doc), pre)(n).locations())
                its = list(getattr(env.query("$[*]", doc), pre)(n).items())
                ptrs = [str(p) for p in getattr(env.query("$[*]", doc), pre)(n).pointers()]
                idx = [x - 100 for x in v]
                ok = ok and vals == v and locs == [f"$[{i}]" for i in idx] and its == [(f"$[{i}]", x) for i, x in zip(idx, v)] and ptrs == [f"/{i}" for i in idx]
                # first_one leaves the rest
                q2 = getattr(env.query("$[*]", doc), pre)(n)
                q2.first_one()
                ok = ok and [m.obj for m in q2] == v[1:]
                if ok:
                    rec.ok()
                else:
                    rec.fail(f"views:{pre}{n}{size}", f"$[*] on {doc}: after {pre}({n}) the views / first_one / last_one disagree with the list {v}", "sys.exit(2)")
            # take: both consumption orders; duplicates in items()
            for order in ("taken-first", "rest-first"):
                q = env.query("$[*]", doc)
                t = q.take(n)
                if order == "taken-first":
                    a = [m.obj for m in t]
                    b = [m.obj for m in q]
                else:
                    b = [m.obj for m in q]
                    a = [m.obj for m in t]
                if a == base[:n] and b == base[n:]:
                    rec.ok()
                else:
                    rec.fail(f"take:{order}{n}{size}", f"$[*] on {doc}: take({n}) consumed {order}: taken {a}, rest {b}; expected {base[:n]} / {base[n:]}",
                             f"import jsonpath\nq = jsonpath.query('$[*]', {doc!r}); t = q.take({n})\n" + ("a = [m.obj for m in t]; b = [m.obj for m in q]\n" if order == "taken-first" else "b = [m.obj for m in q]; a = [m.obj for m in t]\n") + f"print(a, b); sys.exit(0 if (a, b) == ({base[:n]!r}, {base[n:]!r}) else 1)")
            for k in (0, 1, 2, 3):
                for pre_ops in ([], [("skip", 1)], [("take", 4), ("skip", 1)], [("take", 3), ("limit", 2)]):
                    q = env.query("$[*]", doc)
                    v = list(base)
                    for op, m in pre_ops:
                        q = getattr(q, op)(m)
                        v = model_step(v, op, m)
                    tees = q.tee(k)
                    outs = [[m.obj for m in t] for t in reversed(tees)]
                    if len(tees) == k and all(o == v for o in outs):
                        rec.ok()
                    else:
                        rec.fail(f"tee:{k}{pre_ops}{size}", f"$[*] on {doc}: {pre_ops} then tee({k}) gives {outs}, expected {k} x {v}",
                                 f"import jsonpath\nq = jsonpath.query('$[*]', {doc!r})\n" + "".join(f"q = q.{o}({m})\n" for o, m in pre_ops) + f"outs = [[m.obj for m in t] for t in q.tee({k})]\nprint(outs); sys.exit(0 if outs == [{v!r}] * {k} else 1)")
    # views list every remaining match, duplicates included
    d = {"some": [1, 2, 3]}
    for text in ("$.some[0, 1, 0]", "$.some[1, 0:3]", "$.some[0] | $.some.*"):
        ms = list(jsonpath.finditer(text, d))
        its = list(jsonpath.query(text, d).items())
        if its == [(m.path, m.obj) for m in ms]:
            rec.ok((text,), {"query": text, "items": its})
        else:
            rec.fail(f"items:{text}", f"query({text!r}).items() -> {its}, but the matches are {[(m.path, m.obj) for m in ms]}",
                     f"import jsonpath\nd = {d!r}\nits = list(jsonpath.query({text!r}, d).items()); ms = [(m.path, m.obj) for m in jsonpath.finditer({text!r}, d)]\nprint(its, ms); sys.exit(0 if its == ms else 1)")
    return rec.result(exhaustive=True)

"""C20 cross-check (bounded): every match of the C01 query universe on documents with awkward member
names x {test, replace, remove} through the match's JSON Pointer (as object and as text), compared with
the direct structural edit at match.parts."""
from __future__ import annotations

import copy

import jsonpath
from jsonpath import JSONPatch
from jsonpath import JSONPointer
from jsonpath.exceptions import JSONPatchError
from monitors import universe as U

DOCS = [
    {"1": "one", "+1": "plus", "-1": "minus", "~": 1, "/": 2, "": 3, "é": 4, "0": [10, 11], "01": 5, "a b": {"1": [1, {"": 2}]}},
    {"rows": {"0": {"v": 1}, "1": {"v": 2}}, "items": ["note", {"id": 1}, "x", {"id": 2, "tags": ["t"]}]},
    [[1, 2], {"a": [3, {"b": 4}]}, "s", None],
    {"#tag": 1, "tag": 2, "~cfg": {"k": 3, "j": [4, 5]}, "cfg": {"k": 6}, "m~n": {"a/b": 7}},
    {"a": {"a": {"a": 1}}, "b": [[["x"]]]},
]
QUERIES = ["$.*", "$..*", "$[*][*]", "$..[0]", "$..id", "$..['1']", "$..a", "$['~cfg'].k", "$['~cfg'].j[1]", "$['#tag']", "$.rows['1']", "$.rows[0]", "$..[-1]", "$..[1:]", "$[?@.v]", "$..[?@.id]", "$"]
NEW = {"replaced": [True]}


def edit(doc, parts, how):
    d = copy.deepcopy(doc)
    if not parts:
        return NEW if how == "replace" else None
    parent = d
    for p in parts[:-1]:
        parent = parent[p]
    if how == "replace":
        parent[parts[-1]] = copy.deepcopy(NEW)
    else:
        del parent[parts[-1]]
    return d


def run(tier, seed):
    docs, queries = U.universe(tier, seed, n_queries_quick=60, n_queries_thorough=800)
    texts = QUERIES + [U.render_query(q, 0) for q in queries]
    all_docs = DOCS + [d for d in docs if isinstance(d, (list, dict))][:10]
    rec = U.Recorder(f"every match of {len(texts)} queries x {len(all_docs)} documents (names like '1', '+1', '-1', '~', '/', '', non-ASCII, '#tag' next to 'tag') x test / replace / remove, pointer as object and as text")
    env = jsonpath.JSONPathEnvironment()
    for t in texts:
        try:
            p = env.compile(t)
        except Exception:  # noqa: BLE001
            continue
        for d in all_docs:
            try:
                ms = list(p.finditer(d))
            except Exception:  # noqa: BLE001
                continue
            for m in ms:
                ptr = m.pointer()
                forms = {"pointer object": ptr, "pointer text": str(ptr)}
                if "\\" in str(ptr):
                    forms.pop("pointer text")  # escape decoding would alter it (C04: backslash-free pointers)
                for name, target in forms.items():
                    for how in ("test", "replace", "remove"):
                        try:
                            patch = JSONPatch()
                            if how == "test":
                                patch.test(target, copy.deepcopy(m.obj))
                            elif how == "replace":
                                patch.replace(target, copy.deepcopy(NEW))
                            else:
                                patch.remove(target)
                            got = ("ok", patch.apply(copy.deepcopy(d)))
                        except JSONPatchError as e:
                            got = ("error", type(e).__name__)
                        except Exception as e:  # noqa: BLE001
                            got = ("escape", type(e).__name__)
                        if how == "test":
                            want = ("ok", d)
                        elif how == "remove" and not m.parts:
                            want = ("error", "JSONPatchError")
                        else:
                            try:
                                want = ("ok", edit(d, m.parts, how))
                            except (KeyError, IndexError, TypeError) as e:
                                want = ("the match's parts do not address a node of the document", type(e).__name__)
                        if repr(got) == repr(want):
                            rec.ok((t, m.path, how) if len(m.parts) > 1 else None, {"query": t, "path": m.path, "operation": how, "via": name} if len(m.parts) > 1 and len(rec.samples) < 4 else None)
                        else:
                            rec.fail(f"{m.path}|{how}|{name}|{d!r}", f"{how} through the {name} {str(ptr)!r} of the match {m.path!r} of {t!r} on {d!r} -> {got!r}, editing at parts {m.parts!r} directly gives {want!r}",
                                     f"import copy, jsonpath\nfrom jsonpath import JSONPatch\nd = {d!r}\nm = [x for x in jsonpath.finditer({t!r}, d) if x.parts == {m.parts!r}][0]\ntarget = m.pointer() if {name == 'pointer object'} else str(m.pointer())\n"
                                     f"p = JSONPatch()\n" + {"test": "p.test(target, copy.deepcopy(m.obj))", "replace": f"p.replace(target, {NEW!r})", "remove": "p.remove(target)"}[how] + f"\ntry:\n    got = ('ok', p.apply(copy.deepcopy(d)))\nexcept Exception as e:\n    got = ('error', type(e).__name__)\nprint(got); print({want!r}); sys.exit(0 if repr(got) == repr({want!r}) else 1)")
    return rec.result()

"""C09 engine cross-check (bounded): evaluation is read-only and repeatable; caching on == off; the
first use == the n-th use, also after other documents; lazy iterators of one compiled query advanced
in every interleaving of length <= 6; evaluations in threads; re-compiling gives an equal query."""
from __future__ import annotations

import copy
import itertools
import threading

import jsonpath
from monitors import universe as U

CACHE_QUERIES = [
    "$.items[?@.v == $.want].id", "$.items[?@.v < $.limit || @.v == _.limit].id", "$.items[?@.on && @.v < $.limit].id",
    "$.items[?!(@.v < $.limit)].id", "$.items[?match(@.name, $.pattern)].id", "$.items[?@.v == _.want].id",
    "$.items[?@.v == $.want && $.flag].id", "$.items[?count($.items[*]) > @.v].id", "$.items[?@.v == $.limit || @.v == _.limit].id",
    "$.items[?length($.name) == @.v].id", "$.items[?@.v in $.list].id", "$.items[?($.want == @.v) == true].id",
]


def cache_docs():
    docs = []
    for want, limit, pattern in ((1, 2, "a.*"), (2, 1, "b.*"), (3, 3, ".*c"), (1, 0, "x")):
        docs.append({
            "want": want, "limit": limit, "pattern": pattern, "flag": want % 2 == 1, "name": "n" * want, "list": [want, 9],
            "items": [{"id": i, "v": i, "on": i % 2 == 0, "name": "abcabc"[i: i + 2]} for i in range(4)],
        })
    return docs


def run(tier, seed):
    docs, texts = U.mixed_queries(tier, seed)
    texts = texts[:: (3 if tier == "quick" else 1)] + CACHE_QUERIES
    cdocs = cache_docs()
    rec = U.Recorder(f"{len(texts)} queries x {len(docs)} documents: read-only + repeatability + caching on/off; {len(CACHE_QUERIES)} cacheable/volatile mixes x {len(cdocs)} documents x interleavings of 2-3 iterators of length <= 6; 4 threads")
    on = jsonpath.JSONPathEnvironment(filter_caching=True)
    off = jsonpath.JSONPathEnvironment(filter_caching=False)
    fcs = [{"want": 2, "limit": 2, "x": 2}, {"want": 0, "limit": 1, "x": 3}]
    for t in texts:
        try:
            p_on, p_off, p_again = on.compile(t), off.compile(t), on.compile(t)
        except Exception:  # noqa: BLE001
            continue
        if not (p_on == p_again and hash(p_on) == hash(p_again) and str(p_on) == str(p_again)):
            rec.fail(f"recompile:{t}", f"compiling {t!r} twice gives unequal queries", "sys.exit(2)")
        text_before = str(p_on)
        all_docs = (docs if t not in CACHE_QUERIES else []) + cdocs
        firsts = {}
        for rnd in range(2):
            for n, d in enumerate(all_docs):
                for k, fc in enumerate(fcs):
                    d0, fc0 = copy.deepcopy(d), copy.deepcopy(fc)
                    try:
                        a = [(m.obj, m.path) for m in p_on.finditer(d, filter_context=fc)]
                        b = [(m.obj, m.path) for m in p_off.finditer(d, filter_context=fc)]
                        c = [(m.obj, m.path) for m in p_again.finditer(d, filter_context=fc)]
                    except Exception as e:  # noqa: BLE001
                        a = b = c = f"raises {type(e).__name__}"
                    key = (n, k)
                    ok = repr(a) == repr(b) == repr(c) and repr(firsts.setdefault(key, a)) == repr(a) and repr(d) == repr(d0) and fc == fc0
                    if ok:
                        rec.ok((t, n, k) if isinstance(a, list) and a else None, {"query": t, "document": d, "filter_context": fc, "result": [x[0] for x in a]} if isinstance(a, list) and a and t in CACHE_QUERIES else None)
                    else:
                        what = "document or filter context modified" if (repr(d) != repr(d0) or fc != fc0) else "results differ between caching on / caching off / re-compiled / earlier use"
                        rec.fail(f"{t}|{n}|{k}", f"{t!r} on {d!r} with {fc!r} (round {rnd}): {what}: on={a!r} off={b!r} recompiled={c!r} first={firsts.get(key)!r}",
                                 f"import jsonpath\non = jsonpath.JSONPathEnvironment(filter_caching=True); off = jsonpath.JSONPathEnvironment(filter_caching=False)\n"
                                 f"p, q = on.compile({t!r}), off.compile({t!r})\ndocs = {all_docs!r}\nfc = {fc!r}\nbad = 0\nfor rnd in range(2):\n    for d in docs:\n        a, b = p.findall(d, filter_context=fc), q.findall(d, filter_context=fc)\n        if a != b: print('caching on', a, 'off', b, 'on', d); bad = 1\nsys.exit(bad)")
        if str(p_on) != text_before:
            rec.fail(f"mutated:{t}", f"evaluating {t!r} changed the compiled query: {text_before!r} -> {str(p_on)!r}", "sys.exit(2)")
    # one compiled query reused on documents of different shapes must give what a freshly compiled query gives
    # (nothing learnt from an earlier document may be kept), and never returns or extends the document's own lists
    reuse_docs = [{"a": [1, 2, 3]}, {"a": [1, 2, 3, 4, 5]}, {"a": [9]}, [1, 2, 3], [4, 5], {"a": {"b": [1, 2]}}, [[1, 2], [3]]]
    for t in ("$.a[-1]", "$.a[-2]", "$[-1]", "$.a[1:]", "$.a[::-1]", "$..[-1]", "$.* | $[0]", "$[*] | $[0]", "$.* | $.*", "$[*] & $[*]", "$.a.* | $.a[0]", "$.a[?@ > $.a[-1]]", "$.a[?@ == $.a[-1]]"):
        try:
            p = on.compile(t)
        except Exception:  # noqa: BLE001
            continue
        for rnd in range(2):
            for d in reuse_docs:
                d0 = copy.deepcopy(d)
                try:
                    got = [(m.obj, m.path) for m in p.finditer(d)]
                    got_all = p.findall(d)
                    fresh = [(m.obj, m.path) for m in on.compile(t).finditer(copy.deepcopy(d0))]
                    fresh_all = off.compile(t).findall(copy.deepcopy(d0))
                except Exception as e:  # noqa: BLE001
                    rec.fail(f"reuse:{t}", f"{t!r} on {d0!r}: {type(e).__name__}: {e}", "sys.exit(2)")
                    continue
                if repr(got) == repr(fresh) and repr(got_all) == repr(fresh_all) and repr(d) == repr(d0):
                    rec.ok(("reuse", t, repr(d0), rnd))
                else:
                    what = "the document was modified" if repr(d) != repr(d0) else "a reused compiled query differs from a fresh one"
                    rec.fail(f"reuse:{t}|{d0!r}", f"{t!r} compiled once and reused, on {d0!r} (round {rnd}): {what}: reused {got_all!r} / {got!r}, fresh {fresh_all!r} / {fresh!r}, document now {d!r}",
                             f"import jsonpath\np = jsonpath.compile({t!r})\ndocs = {reuse_docs!r}\nbad = 0\nfor d in docs:\n    a = p.findall(d); b = jsonpath.compile({t!r}).findall(d)\n    if a != b: print(d, a, b); bad = 1\nsys.exit(bad)")
    # documents given as JSON text: every evaluation sees a freshly decoded value - what a caller does to the
    # values it got back must not show up in a later evaluation of the same text
    import json as _json

    for t in ("$..*", "$.users[?@.score > $.limit].name", "$[*]", "$.users[*]"):
        for d in ({"limit": 1, "users": [{"name": "a", "score": 1, "tags": []}, {"name": "b", "score": 2, "tags": [1]}]}, [[1, 2], {"k": [3]}, "s"]):
            text = _json.dumps(d)
            try:
                p = on.compile(t)
                first = p.findall(text)
                shown = repr(first)
                for v in first:  # the caller scribbles over what it was given
                    if isinstance(v, list):
                        v.append("scribble")
                    elif isinstance(v, dict):
                        v["scribble"] = True
                        for k in [k for k in v if k in ("score", "limit")]:
                            v[k] = 99
                second = p.findall(text)
                fresh = off.compile(t).findall(_json.loads(text))
            except Exception as e:  # noqa: BLE001
                rec.fail(f"text-reuse:{t}", f"{t!r} on the JSON text {text!r}: {type(e).__name__}: {e}", "sys.exit(2)")
                continue
            if repr(second) == shown == repr(fresh):
                rec.ok(("text-reuse", t, text))
            else:
                rec.fail(f"text-reuse:{t}|{text}", f"{t!r} evaluated twice on the same JSON text {text!r}: first {shown}, after the caller modified the returned values {second!r}; a fresh decode gives {fresh!r}",
                         f"import jsonpath\ntext = {text!r}\na = jsonpath.findall({t!r}, text); r = repr(a)\nfor v in a:\n    if isinstance(v, list): v.append('x')\n    elif isinstance(v, dict): v['x'] = 1\nb = jsonpath.findall({t!r}, text)\nprint(r); print(b); sys.exit(0 if repr(b) == r else 1)")
    # interleaved lazy iterators of one compiled query
    for t in CACHE_QUERIES:
        p = on.compile(t)
        for fc in fcs:
            want = [p_ := None] and None
            serial = [[m.obj for m in off.compile(t).finditer(d, filter_context=fc)] for d in cdocs[:3]]
            for nit in (2, 3):
                for sched in itertools.product(range(nit), repeat=(4 if tier == "quick" else 6)):
                    its = [iter(p.finditer(cdocs[i], filter_context=fc)) for i in range(nit)]
                    got = [[] for _ in range(nit)]
                    for s in sched:
                        try:
                            got[s].append(next(its[s]).obj)
                        except StopIteration:
                            pass
                    for i in range(nit):
                        got[i].extend(m.obj for m in its[i])
                    if got == serial[:nit]:
                        rec.ok((t, sched))
                    else:
                        rec.fail(f"interleave:{t}", f"{t!r}: iterators over {nit} documents advanced in order {sched} give {got}, serially {serial[:nit]}",
                                 f"import jsonpath\np = jsonpath.compile({t!r})\ndocs = {cdocs[:nit]!r}\nfc = {fc!r}\nits = [iter(p.finditer(d, filter_context=fc)) for d in docs]\ngot = [[] for _ in docs]\nfor s in {sched!r}:\n    try: got[s].append(next(its[s]).obj)\n    except StopIteration: pass\nfor i, it in enumerate(its): got[i].extend(m.obj for m in it)\nwant = [jsonpath.JSONPathEnvironment(filter_caching=False).findall({t!r}, d, filter_context=fc) for d in docs]\nprint(got, want); sys.exit(0 if got == want else 1)")
    # threads
    for t in CACHE_QUERIES[:6]:
        p = on.compile(t)
        want = [p.findall(d, filter_context=fcs[0]) for d in cdocs]
        results = [None] * len(cdocs)

        def work(i):
            out = None
            for _ in range(30):
                out = p.findall(cdocs[i], filter_context=fcs[0])
            results[i] = out

        ths = [threading.Thread(target=work, args=(i,)) for i in range(len(cdocs))]
        [th.start() for th in ths]
        [th.join() for th in ths]
        if results == want:
            rec.ok()
        else:
            rec.fail(f"threads:{t}", f"{t!r}: concurrent evaluations in threads give {results}, serially {want}", "sys.exit(2)")
    return rec.result()

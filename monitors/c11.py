"""C11 engine cross-check (bounded): every query entry point agrees with find-iter; JSON text / file
inputs equal the parsed value; compound queries follow the left-to-right union / intersection
definition through every entry point."""
from __future__ import annotations

import asyncio
import io
import json

import jsonpath
from monitors import universe as U


async def _collect(awaitable):
    return [m.obj async for m in await awaitable]


def split_compound(text):
    """'$.a | $.b & $.c' -> ['$.a', ('|', '$.b'), ('&', '$.c')] for the fixed compound universe."""
    toks = text.replace("|", " | ").replace("&", " & ").split()
    parts, op = [], None
    cur = []
    for t in toks:
        if t in ("|", "&"):
            parts.append((op, " ".join(cur)))
            op, cur = t, []
        else:
            cur.append(t)
    parts.append((op, " ".join(cur)))
    return parts


def compound_reference(text, doc):
    parts = split_compound(text)
    acc = jsonpath.findall(parts[0][1], doc)
    for op, p in parts[1:]:
        right = jsonpath.findall(p, doc)
        if op == "|":
            acc = acc + right
        else:
            acc = [x for x in acc if any(U._same(x, y) for y in right)]
    return acc


def run(tier, seed):
    docs, texts = U.mixed_queries(tier, seed)
    rec = U.Recorder(f"{len(texts)} queries x {len(docs)} documents through env/compiled findall, finditer, match, query (+ async), as value, JSON text, StringIO, BytesIO; {len(U.COMPOUND_QUERIES)} compound queries against the fold definition")
    env = jsonpath.JSONPathEnvironment()
    fc = {"x": 2}

    def entry_points(t, p, d):
        out = {}
        out["finditer"] = [m.obj for m in p.finditer(d, filter_context=fc)]
        out["findall"] = p.findall(d, filter_context=fc)
        m = p.match(d, filter_context=fc)
        out["match"] = [m.obj] if m is not None else []
        out["query"] = list(p.query(d, filter_context=fc).values())
        out["env.findall"] = env.findall(t, d, filter_context=fc)
        out["env.finditer"] = [m.obj for m in env.finditer(t, d, filter_context=fc)]
        m = env.match(t, d, filter_context=fc)
        out["env.match"] = [m.obj] if m is not None else []
        out["env.query"] = list(env.query(t, d, filter_context=fc).values())
        out["module.findall"] = jsonpath.findall(t, d, filter_context=fc)
        out["findall_async"] = asyncio.run(p.findall_async(d, filter_context=fc))
        return out

    for t in texts:
        try:
            p = env.compile(t)
        except Exception:  # noqa: BLE001
            continue
        for n, d in enumerate(docs):
            try:
                base = [m.obj for m in p.finditer(d, filter_context=fc)]
            except Exception:  # noqa: BLE001
                continue
            try:
                eps = entry_points(t, p, d)
            except Exception as e:  # noqa: BLE001
                rec.fail(f"{t}|{n}", f"{t!r} on {d!r}: an entry point raised {type(e).__name__}: {e} although finditer succeeded", "sys.exit(2)")
                continue
            bad = [k for k, v in eps.items() if not (U.same_values(v, base[:1]) if k.endswith("match") else U.same_values(v, base))]
            if bad:
                rec.fail(f"{t}|{n}", f"{t!r} on {d!r}: entry points {bad} disagree with finditer {base!r}: { {k: eps[k] for k in bad} !r}",
                         f"import jsonpath\nd = {d!r}\nfc = {fc!r}\nbase = [m.obj for m in jsonpath.finditer({t!r}, d, filter_context=fc)]\nother = jsonpath.findall({t!r}, d, filter_context=fc)\nprint(base, other); sys.exit(0 if base == other else 1)")
            else:
                rec.ok((t, n) if base else None, {"query": t, "document": d, "values": base} if len(base) > 1 else None)
            if n % 4 == 0:
                txt = json.dumps(d)
                forms = {"text": txt, "StringIO": io.StringIO(txt), "BytesIO": io.BytesIO(txt.encode())}
                for k, f in forms.items():
                    try:
                        got = p.findall(f, filter_context=fc)
                    except Exception as e:  # noqa: BLE001
                        got = f"raises {type(e).__name__}"
                    if isinstance(got, list) and U.same_values(got, base):
                        rec.ok()
                    else:
                        rec.fail(f"form:{k}:{t}|{n}", f"{t!r}: document given as {k} -> {got!r}, as parsed value -> {base!r}", "sys.exit(2)")
                # the same three forms through the environment-level and module-level entry points
                makers = {"text": lambda: txt, "StringIO": lambda: io.StringIO(txt), "BytesIO": lambda: io.BytesIO(txt.encode())}
                calls = {
                    "env.findall": lambda f: env.findall(t, f, filter_context=fc),
                    "env.finditer": lambda f: [m.obj for m in env.finditer(t, f, filter_context=fc)],
                    "env.query": lambda f: list(env.query(t, f, filter_context=fc).values()),
                    "env.match": lambda f: [m.obj for m in [env.match(t, f, filter_context=fc)] if m is not None] + list(base[1:]),
                    "env.finditer_async": lambda f: asyncio.run(_collect(env.finditer_async(t, f, filter_context=fc))),
                }
                for k, mk in makers.items():
                    for cn, call in calls.items():
                        try:
                            got = call(mk())
                        except Exception as e:  # noqa: BLE001
                            got = f"raises {type(e).__name__}: {e}"
                        if isinstance(got, list) and U.same_values(got, base):
                            rec.ok()
                        else:
                            rec.fail(f"form:{cn}:{k}:{t}|{n}", f"{cn}({t!r}, <document given as {k}>) -> {got!r}, on the parsed value -> {base!r}",
                                     f"import io, json, jsonpath\nenv = jsonpath.JSONPathEnvironment()\nd = {d!r}\nprint(env.findall({t!r}, d), [m.obj for m in env.finditer({t!r}, io.BytesIO(json.dumps(d).encode()))]); sys.exit(2)")
    for t in ("$..*", "$.users[*]", "$[*]", "$.users[?@.score > $.limit].name", "$.users[*].tags | $.users[0]"):
        for d in ({"limit": 1, "users": [{"name": "a", "score": 1, "tags": []}, {"name": "b", "score": 2, "tags": [1]}]}, [[1, 2], {"k": [3]}, "s"]):
            text = json.dumps(d)
            try:
                want = jsonpath.findall(t, json.loads(text))
                first = jsonpath.findall(t, text)
                for v in first:
                    if isinstance(v, list):
                        v.append("edited")
                    elif isinstance(v, dict):
                        v["edited"] = True
                        for k in [k for k in v if k in ("score", "limit")]:
                            v[k] = 99
                second = {"findall": jsonpath.findall(t, text), "finditer": [m.obj for m in jsonpath.finditer(t, text)], "query": list(jsonpath.query(t, text).values()),
                          "StringIO": jsonpath.findall(t, io.StringIO(text))}
            except Exception as e:  # noqa: BLE001
                rec.fail(f"text-again:{t}", f"{t!r} on the JSON text {text!r}: {type(e).__name__}: {e}", "sys.exit(2)")
                continue
            bad = [k for k, v in second.items() if repr(v) != repr(want)]
            if bad:
                rec.fail(f"text-again:{t}|{text}", f"{t!r} on the JSON text {text!r} after the caller edited the values an earlier call returned: {bad} -> { {k: second[k] for k in bad} !r}; the parsed value gives {want!r}", "sys.exit(2)")
            else:
                rec.ok(("text-again", t, text))
    for t in U.COMPOUND_QUERIES:
        for d in U.COMPOUND_DOCS + docs[:6]:
            try:
                want = compound_reference(t, d)
            except Exception:  # noqa: BLE001
                continue
            async def _aiter(t=t, d=d):
                return [m.obj async for m in await jsonpath.finditer_async(t, d)]

            first = jsonpath.match(t, d)
            got = {"findall": jsonpath.findall(t, d), "finditer": [m.obj for m in jsonpath.finditer(t, d)], "query": list(jsonpath.query(t, d).values()),
                   "findall_async": asyncio.run(jsonpath.findall_async(t, d)), "finditer_async": asyncio.run(_aiter()),
                   "match": ([] if first is None else [first.obj]) + list(want[1:])}
            bad = [k for k, v in got.items() if not U.same_values(v, want)]
            if bad:
                rec.fail(f"compound:{t}|{d!r}", f"compound {t!r} on {d!r}: {bad} -> { {k: got[k] for k in bad} !r}, left-to-right definition gives {want!r}",
                         f"import jsonpath\nd = {d!r}\na = jsonpath.findall({t!r}, d); b = [m.obj for m in jsonpath.finditer({t!r}, d)]\nprint(a, b, {want!r}); sys.exit(0 if a == b == {want!r} else 1)")
            else:
                rec.ok((t, repr(d)) if want else None, {"query": t, "document": d, "values": want} if want else None)
    return rec.result()

"""C16 cross-check (bounded, exactly the statement's quantifier): bases of depth <= 3 x steps
0..depth+1 x offsets {none, +-1, +-2, +-10, +-12} x suffixes {empty, '#', escaped and non-ASCII
pointers}: `to()` against the draft reference (specs/relptr.py); printing a parsed relative pointer
returns its text; malformed texts are refused with a relative-pointer (or pointer) error."""
from __future__ import annotations

import itertools

import specs.relptr as R
from jsonpath import JSONPointer
from jsonpath import RelativeJSONPointer
from jsonpath.exceptions import JSONPointerError
from jsonpath.exceptions import RelativeJSONPointerError
from monitors import pointers as PU
from monitors import universe as U

BASE_TOKENS = ["a", "0", "1", "12", "foo", "", "~", "a/b", "é", "-", "01"]
OFFSETS = ["", "+1", "-1", "+2", "-2", "+10", "-10", "+12", "-12"]
SUFFIXES = ["", "#", "/x", "/0", "/a~1b", "/~0", "/é", "/", "/x/y", "/ ", "/100%25", "/x%2Fy"]
BAD = ["", "x", "-1", "01", "00/a", "0+0", "0-0", "0+01", "1+", "0#x", "0 #", "+1", "0+1x", "1e2", "#", "0x", "00", "0+-1"]


def run(tier, seed):
    rec = U.Recorder(f"bases of depth <= 3 over {len(BASE_TOKENS)} tokens x steps 0..depth+1 x {len(OFFSETS)} offsets x {len(SUFFIXES)} suffixes; {len(BAD)} malformed texts")
    bases = [()] + [(a,) for a in BASE_TOKENS] + [(a, b) for a in BASE_TOKENS[:6] for b in BASE_TOKENS] + [(a, b, c) for a in ("a", "0") for b in ("foo", "1") for c in BASE_TOKENS]
    for base in bases:
      for how in ("parsed", "from_parts"):
        # the same base, held as parsed tokens (ints for indices) or as given strings
        bp = JSONPointer(PU.spell(base), unicode_escape=False) if how == "parsed" else JSONPointer.from_parts(list(base), unicode_escape=False)
        for steps in range(0, len(base) + 2):
              for off in OFFSETS:
                  for suf in SUFFIXES:
                      text = f"{steps}{off}{suf}"
                      try:
                          s, o, sx = R.parse(text)
                          want = ("ok", R.apply(list(base), s, o, sx))
                      except R.RelError:
                          want = ("error",)
                      try:
                          rp = RelativeJSONPointer(text, unicode_escape=False)
                          printed = str(rp)
                          res = rp.to(bp, unicode_escape=False)
                          got = ("ok", [str(p) for p in res.parts])
                          # the string entry point of the base pointer is the same operation
                          via = bp.to(text, unicode_escape=False)
                          if [str(p) for p in via.parts] != got[1]:
                              got = ("entry points differ", got[1], [str(p) for p in via.parts])
                          # and with the default decoding switches (no backslash here: decoding is the identity)
                          d1, d2 = bp.to(text), RelativeJSONPointer(text).to(bp)
                          if [str(p) for p in d1.parts] != got[1] or [str(p) for p in d2.parts] != got[1]:
                              got = ("default switches differ", got[1], [str(p) for p in d1.parts], [str(p) for p in d2.parts])
                      except RelativeJSONPointerError:
                          got, printed = ("error",), None
                      except JSONPointerError:
                          got, printed = ("error",), None
                      except Exception as e:  # noqa: BLE001
                          got, printed = ("escape", type(e).__name__), None
                      # the string entry point of the base pointer, judged on its own (also when the other one refuses)
                      try:
                          via2 = ("ok", [str(p) for p in bp.to(text, unicode_escape=False).parts])
                      except (RelativeJSONPointerError, JSONPointerError):
                          via2 = ("error",)
                      except Exception as e:  # noqa: BLE001
                          via2 = ("escape", type(e).__name__)
                      if got[0] in ("ok", "error") and via2[0] != got[0]:
                          got = ("entry points differ", got, via2)
                      if want[0] == "ok" and want[1] is None:
                          rec.ok()  # offset on a non-index token: unconstrained
                          continue
                      if want[0] == "ok" and isinstance(want[1], tuple):  # key marker
                          toks = want[1][1]
                          want = ("ok", toks[:-1] + ["#" + toks[-1]])
                      good = got == want and (printed is None or printed == text)
                      if good:
                          rec.ok((text, base) if want[0] == "ok" and off else None, {"base": PU.spell(base), "relative": text, "result": want[1]} if want[0] == "ok" and off and suf else None)
                      else:
                          rec.fail(f"{text}|{base}", f"RelativeJSONPointer({text!r}).to({PU.spell(base)!r}) -> {got!r} (printed {printed!r}); the draft gives {want!r}",
                                   f"from jsonpath import JSONPointer, RelativeJSONPointer\ntry:\n    rp = RelativeJSONPointer({text!r}, unicode_escape=False); r = rp.to(JSONPointer({PU.spell(base)!r}, unicode_escape=False), unicode_escape=False)\n    got = ('ok', [str(p) for p in r.parts]); print(str(rp))\nexcept Exception as e:\n    got = ('error',); print(type(e).__name__, e)\nprint(got, {want!r}); sys.exit(0 if got == {want!r} else 1)",
                                   classify(text, base, got, want))
    for text in BAD:
        try:
            RelativeJSONPointer(text)
            rec.fail(f"bad:{text}", f"malformed relative pointer {text!r} is accepted", "sys.exit(2)")
        except (RelativeJSONPointerError, JSONPointerError):
            rec.ok(("bad", text))
        except Exception as e:  # noqa: BLE001
            rec.fail(f"bad:{text}", f"malformed relative pointer {text!r} raises {type(e).__name__}", "sys.exit(2)")
    return rec.result(exhaustive=True)


def classify(text, base, got, want):
    return None

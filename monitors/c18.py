"""C18 end-to-end check (bounded): `python -m jsonpath path|pointer|patch` (in-process main() with
patched argv; a sample through a real subprocess) over the option matrix of each sub-command x
{inline, file} expression x {stdout, file} output x valid / invalid expression x valid / invalid
document, compared with the corresponding library call: output == JSON serialisation + status 0, or a
one-line message on stderr + status 1 and no traceback (unless --debug)."""
from __future__ import annotations

import contextlib
import io
import itertools
import json
import os
import subprocess
import sys
import tempfile

import jsonpath
from jsonpath import cli
from monitors import universe as U

DOC = {"a": [{"b": 1, "s": "abc"}, {"b": 2}], "x": 2, "é": {"n~m": [1, {"a/b": 2}]}, "p%20q": 5, "p q": 6}
QUERIES = [
    ("$.a[*].b", True), ("$..b", True), ("$[?@.b == 1]", False), ("$.a[?@.b > $.x]", True), ("a[0]", True), ("$.a[?count(@.*) == 2]", True), ("$", True),
    ("$[", False), ("$[?@.a ==]", False), ("$[?@.* == 1]", False), ("$[?foo(@)]", False), ("$[9007199254740992]", False), ("$[?count(@.a) && @.b]", False), ("$[?length(@.a, 1) == 1]", False), ("", True),
    ("$[?match(@.s, 'a.*')]", True), ("$['é']..*", True),
]
POINTERS = [("/a/0/b", True), ("", True), ("/é/n~0m/1/a~1b", True), ("/a/5", False), ("/nope", False), ("/a/x", False), ("/x/0", False), ("a", False), ("/p%20q", True), ("/a/-", False), ("/a/01", False)]
PATCHES = [
    ([{"op": "add", "path": "/a/-", "value": 3}], True), ([{"op": "replace", "path": "", "value": {"new": 1}}], True), ([{"op": "move", "from": "/x", "path": "/a/0/y"}], True),
    ([{"op": "test", "path": "/x", "value": 3}], False), ([{"op": "remove", "path": "/nope"}], False), ([{"op": "add", "path": "/a/9", "value": 1}], False), ([{"op": "nope", "path": "/a"}], False),
    ([{"op": "add", "value": 1}], False), ([{"op": "add", "path": "/p%20q", "value": 7}], True), ([{"op": "copy", "from": "/a", "path": ""}], True), ({"op": "add"}, False), ([], True),
]
BAD_DOC = '{"a": [1, 2'


def run_main(argv, stdin_text=""):
    out, err = io.StringIO(), io.StringIO()
    code = 0
    old_argv, old_stdin = sys.argv, sys.stdin
    sys.argv = ["json"] + argv
    sys.stdin = io.TextIOWrapper(io.BytesIO(stdin_text.encode()))
    tb = False
    try:
        with contextlib.redirect_stdout(out), contextlib.redirect_stderr(err):
            try:
                cli.main()
            except SystemExit as e:
                code = e.code if isinstance(e.code, int) else (0 if e.code is None else 1)
            except BaseException as e:  # noqa: BLE001  an uncaught exception is a traceback for the user
                tb = True
                code = 1
                err.write(f"Traceback: {type(e).__name__}: {e}\n")
    finally:
        sys.argv, sys.stdin = old_argv, old_stdin
    return code, out.getvalue(), err.getvalue(), tb


def run(tier, seed):
    rec = U.Recorder(f"path: {len(QUERIES)} queries, pointer: {len(POINTERS)} pointers, patch: {len(PATCHES)} patches; x inline/file expression x stdout/file output x --pretty x --no-unicode-escape x --no-type-checks / --uri-decode x valid/invalid document x --debug; + 6 real subprocess runs")
    tmp = tempfile.mkdtemp(prefix="c18_")
    try:
        good, bad = os.path.join(tmp, "doc.json"), os.path.join(tmp, "bad.json")
        with open(good, "w", encoding="utf-8") as fd:
            json.dump(DOC, fd)
        with open(bad, "w", encoding="utf-8") as fd:
            fd.write(BAD_DOC)
        n = [0]

        def case(sub, expr_args, lib_call, expect_ok, flags, docfile, via_file_out, debug, label):
            n[0] += 1
            outpath = os.path.join(tmp, f"out{n[0]}.json")
            argv = (["--debug"] if debug else []) + flags["global"] + [sub] + expr_args + ["-f", docfile] + flags["sub"] + (["-o", outpath] if via_file_out else [])
            code, out, err, tb = run_main(argv)
            if via_file_out and os.path.exists(outpath):
                with open(outpath, encoding="utf-8") as fd:
                    out = fd.read()
            ok_doc = docfile == good
            try:
                want = lib_call() if ok_doc else None
                lib_ok = ok_doc
            except Exception:  # noqa: BLE001
                want, lib_ok = None, False
            if lib_ok:
                indent = 2 if "--pretty" in flags["global"] else None
                good_out = out == json.dumps(want, indent=indent) and code == 0 and not tb
                if good_out:
                    rec.ok((label, tuple(argv[:-1])), {"argv": argv, "stdout": out[:80]} if len(rec.samples) < 3 else None)
                else:
                    rec.fail(f"ok:{label}:{flags}:{via_file_out}", f"json {' '.join(argv)}: library returns {want!r}; CLI exit {code}, output {out[:120]!r}, stderr {err[:200]!r}",
                             f"import subprocess\nr = subprocess.run([sys.executable, '-m', 'jsonpath'] + {argv!r}, capture_output=True, text=True)\nprint(r.returncode, r.stdout, r.stderr); sys.exit(2)")
            else:
                one_line = err.strip() != "" and "\n" not in err.strip() and "Traceback" not in err
                if debug:
                    good_err = code != 0  # with --debug the exception may propagate
                else:
                    good_err = code == 1 and one_line and not tb and out == ""
                if good_err:
                    rec.ok(("err", label, tuple(argv[:-1])), {"argv": argv, "stderr": err.strip()[:80]} if len(rec.samples) < 4 else None)
                else:
                    rec.fail(f"err:{label}:{debug}:{docfile == good}", f"json {' '.join(argv)}: the library rejects this input; CLI exit {code}, stdout {out[:80]!r}, stderr {err[:300]!r}{' (uncaught exception)' if tb else ''}",
                             f"import subprocess\nr = subprocess.run([sys.executable, '-m', 'jsonpath'] + {argv!r}, capture_output=True, text=True)\nprint(r.returncode, r.stdout, r.stderr); sys.exit(2)")

        def write(name, text):
            path = os.path.join(tmp, name)
            with open(path, "w", encoding="utf-8") as fd:
                fd.write(text)
            return path

        gflags = [[], ["--pretty"], ["--no-unicode-escape"], ["--pretty", "--no-unicode-escape"]]
        for (q, _ok), g, tc, inline, fout, doc, dbg in itertools.product(QUERIES, gflags, (False, True), (True, False), (False, True), (good, bad), (False, True)):
            if not inline and q == "":
                continue
            if dbg and (g or fout or not inline):
                continue
            expr = ["-q", q] if inline else ["-r", write(f"q{abs(hash(q))}.txt", q + "\n")]
            flags = {"global": g, "sub": ["--no-type-checks"] if tc else []}
            env = jsonpath.JSONPathEnvironment(unicode_escape="--no-unicode-escape" not in g, well_typed=not tc)
            case("path", expr, lambda env=env, q=q: env.compile(q).findall(DOC), None, flags, doc, fout, dbg, f"path:{q}")
        for (p, _ok), g, ud, inline, fout, doc, dbg in itertools.product(POINTERS, gflags, (False, True), (True, False), (False, True), (good, bad), (False, True)):
            if not inline and p == "":
                continue
            if dbg and (g or fout or not inline):
                continue
            expr = ["-p", p] if inline else ["-r", write(f"p{abs(hash(p))}.txt", p + "\n")]
            flags = {"global": g, "sub": ["-u"] if ud else []}
            case("pointer", expr, lambda p=p, g=g, ud=ud: jsonpath.pointer.resolve(p, DOC, unicode_escape="--no-unicode-escape" not in g, uri_decode=ud), None, flags, doc, fout, dbg, f"pointer:{p}")
        for k, (ops, _ok) in enumerate(PATCHES):
            pf = write(f"patch{k}.json", json.dumps(ops))
            for g, ud, fout, doc, dbg in itertools.product(gflags, (False, True), (False, True), (good, bad), (False, True)):
                if dbg and (g or fout):
                    continue
                flags = {"global": g, "sub": ["-u"] if ud else []}

                def lib(ops=ops, g=g, ud=ud):
                    if not isinstance(ops, list):
                        raise ValueError("not an array")
                    return jsonpath.patch.apply(json.loads(json.dumps(ops)), json.loads(json.dumps(DOC)), unicode_escape="--no-unicode-escape" not in g, uri_decode=ud)

                case("patch", [pf], lib, None, flags, doc, fout, dbg, f"patch:{k}")
        # documents in the encodings json.loads detects from bytes (the library reads the file in binary)
        for enc in ("utf-8-sig", "utf-16", "utf-32"):
            path = os.path.join(tmp, f"doc_{enc}.json")
            with open(path, "wb") as fd:
                fd.write(json.dumps(DOC).encode(enc))
            code, out, err, tb = run_main(["path", "-q", "$.a[*].b", "-f", path])
            if code == 0 and out == json.dumps([1, 2]) and not tb:
                rec.ok(("encoding", enc))
            else:
                rec.fail(f"encoding:{enc}", f"json path -q '$.a[*].b' -f <document encoded as {enc}>: exit {code}, stdout {out[:60]!r}, stderr {err[:200]!r}; jsonpath.findall on the same file object returns [1, 2]", "sys.exit(2)")
            code, out, err, tb = run_main(["pointer", "-p", "/a/0/b", "-f", path])
            if code == 0 and out == "1" and not tb:
                rec.ok(("encoding-pointer", enc))
            else:
                rec.fail(f"encoding-pointer:{enc}", f"json pointer -p /a/0/b -f <document encoded as {enc}>: exit {code}, stdout {out[:60]!r}, stderr {err[:200]!r}", "sys.exit(2)")
        # documents (and a patch file) that are not decodable at all: bytes that are no valid UTF-8 / UTF-16 -
        # "undecodable document": one line on stderr, exit 1, no traceback unless --debug
        for name, raw in (("ff", b'"\xff"'), ("trunc", b'{"a": "\xe2\x82"}'), ("utf16odd", b"\xff\xfe[\x001")):
            path = os.path.join(tmp, f"undecodable_{name}.json")
            with open(path, "wb") as fd:
                fd.write(raw)
            for label, argv in (("path", ["path", "-q", "$", "-f", path]), ("pointer", ["pointer", "-p", "", "-f", path]), ("patch", ["patch", os.path.join(tmp, "patch0.json"), "-f", path]), ("patch-file", ["patch", path, "-f", good])):
                code, out, err, tb = run_main(argv)
                one_line = err.strip() != "" and err.strip().count("\n") == 0
                if code == 1 and not tb and out == "" and one_line:
                    rec.ok(("undecodable", name, label))
                else:
                    rec.fail(f"undecodable:{name}:{label}", f"json {' '.join(argv[:3])} ... on a file holding the bytes {raw!r}: exit {code}, traceback {tb}, stdout {out[:60]!r}, stderr {err[:200]!r}; an undecodable document is to be refused with one line on stderr and exit status 1", "sys.exit(2)")
                code, out, err, tb = run_main(["--debug"] + argv)
                if tb or code == 1:
                    rec.ok(("undecodable-debug", name, label))
                else:
                    rec.fail(f"undecodable-debug:{name}:{label}", f"json --debug {' '.join(argv[:3])} on bytes {raw!r}: exit {code}, stdout {out[:60]!r}", "sys.exit(2)")
        # a document whose top-level value is a string that itself looks like JSON: decoded once, not twice
        strdoc = write("strdoc.json", json.dumps("[1, 2, 3]"))
        for q in ("$", "$[0]"):
            code, out, err, tb = run_main(["path", "-q", q, "-f", strdoc])
            with open(strdoc, "rb") as fd:
                want = jsonpath.findall(q, fd)
            if code == 0 and out == json.dumps(want) and not tb:
                rec.ok(("string-document", q))
            else:
                rec.fail(f"string-document:{q}", f"json path -q {q!r} -f <file containing the JSON string \"[1, 2, 3]\">: exit {code}, stdout {out[:60]!r}; jsonpath.findall on the same file returns {want!r}", "sys.exit(2)")
        code, out, err, tb = run_main(["pointer", "-p", "", "-f", strdoc])
        if code == 0 and out == json.dumps("[1, 2, 3]") and not tb:
            rec.ok(("string-document", "pointer"))
        else:
            rec.fail("string-document:pointer", f"json pointer -p '' -f <file containing the JSON string \"[1, 2, 3]\">: exit {code}, stdout {out[:60]!r}, stderr {err[:200]!r}; the library resolves the empty pointer to the string itself", "sys.exit(2)")
        # an expression file is read whole and stripped: blank lines around the expression, the expression over several lines
        for k, body in enumerate(("\n$.a[*].b\n", "\n\n  $.a[*].b  \n\n", "$.a[*]\n.b\n", "$.a\n[*]\n.b")):
            qf = write(f"multi{k}.txt", body)
            code, out, err, tb = run_main(["path", "-r", qf, "-f", good])
            try:
                want = json.dumps(jsonpath.findall(body.strip(), DOC))
            except Exception:  # noqa: BLE001
                want = None
            if want is not None and code == 0 and out == want and not tb:
                rec.ok(("multi-line", k))
            elif want is None and code == 1 and not tb:
                rec.ok(("multi-line-rejected", k))
            else:
                rec.fail(f"multi-line:{k}", f"json path -r <file containing {body!r}> -f doc.json: exit {code}, stdout {out[:80]!r}, stderr {err[:200]!r}; the library on the stripped text gives {want!r}", "sys.exit(2)")
        # an inline pointer is taken as written (trailing blanks belong to the last token)
        spaced = write("spaced.json", json.dumps({"a": 1, "a ": 2, " a": 3}))
        for ptr, want in (("/a ", 2), ("/a", 1)):
            code, out, err, tb = run_main(["pointer", "-p", ptr, "-f", spaced])
            if code == 0 and out == json.dumps(want) and not tb:
                rec.ok(("spaced-pointer", ptr))
            else:
                rec.fail(f"spaced-pointer:{ptr}", f"json pointer -p {ptr!r} -f <{{'a': 1, 'a ': 2, ' a': 3}}>: exit {code}, stdout {out[:60]!r}; jsonpath.pointer.resolve gives {want!r}", "sys.exit(2)")
        badpatch = write("badpatch.json", "[{")
        case("patch", [badpatch], lambda: (_ for _ in ()).throw(ValueError()), None, {"global": [], "sub": []}, good, False, False, "patch:malformed")
        # a few real subprocess runs
        for argv, okk in ((["path", "-q", "$.a[*].b", "-f", good], True), (["path", "-q", "$[", "-f", good], False), (["pointer", "-p", "/a/0/b", "-f", good], True), (["pointer", "-p", "/nope", "-f", good], False),
                          (["patch", os.path.join(tmp, "patch0.json"), "-f", good], True), (["path", "-q", "$[?foo(@)]", "-f", good], False)):
            r = subprocess.run(["/venv/bin/python", "-m", "jsonpath"] + argv, capture_output=True, text=True, env={**os.environ, "PYTHONPATH": os.environ.get("VERIF_REPO", "/repo")}, check=False)
            good_run = (r.returncode == 0 and r.stdout.strip() != "") if okk else (r.returncode == 1 and "Traceback" not in r.stderr and r.stderr.strip().count("\n") == 0 and r.stderr.strip() != "")
            if good_run:
                rec.ok(("subprocess", tuple(argv[:3])))
            else:
                rec.fail(f"subprocess:{argv[:3]}", f"python -m jsonpath {' '.join(argv)}: exit {r.returncode}, stdout {r.stdout[:100]!r}, stderr {r.stderr[-300:]!r}", "sys.exit(2)")
    finally:
        import shutil

        shutil.rmtree(tmp, ignore_errors=True)
    return rec.result()

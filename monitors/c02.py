"""C02 bounded stand-in (Pratt parser: precedence / grouping) + engine cross-check of the filter
semantics: `$[?expr]` over expression trees of depth <= 2 (quick) / 3 (thorough), in several
spellings, against the reference evaluator built from specs/rfc9535_filter.py."""
from __future__ import annotations

import jsonpath
from monitors import filters as FL
from monitors import universe as U


def classify(expr, doc, got, want):
    """C02-deep-equality-bool-number: the library's equality of two arrays / objects is Python ==, which
    identifies true/false with 1/0 below the top level.  A disagreement is that finding exactly when the
    reference evaluator gives the library's answer once its equality of two containers is switched to
    Python == (and nothing else is changed) - whatever the shape of the expression around it."""
    import specs.rfc9535_filter as F

    if not isinstance(got, list):
        return None
    orig = F.json_equal

    def python_eq_on_containers(a, b):
        if isinstance(a, (list, dict)) and isinstance(b, (list, dict)):
            return a == b
        return orig(a, b)

    F.json_equal = python_eq_on_containers
    try:
        alt = FL.reference_filter(expr, doc)
    except Exception:  # noqa: BLE001
        return None
    finally:
        F.json_equal = orig
    if U.same_values(got, alt) and not U.same_values(alt, want):
        return "C02-deep-equality-bool-number"
    return None


REGEX_CASES = [
    # (function, pattern): full-match vs search semantics, alternation scope, line ends, case
    ("match", "a|b"), ("match", "ab|a"), ("match", "a|ab"), ("match", "a"), ("match", "a$"), ("match", "^a"), ("match", "a.*"), ("match", "(a|b)c"), ("match", "a??b?"), ("match", ""),
    ("search", "a|b"), ("search", "^a"), ("search", "a$"), ("search", "b$"), ("search", "^$"), ("search", ""), ("search", "a.c"),
]
REGEX_DOC = ["a", "b", "ab", "ax", "xb", "ba", "a\n", "\na", "abc", "a\nc", "", "A", "ac", "bc", 1, None, ["a"]]


def regex_reference(fn, pat, v):
    import re

    if not isinstance(v, str):
        return False
    return bool(re.fullmatch(pat, v)) if fn == "match" else bool(re.search(pat, v))


def run(tier, seed):
    docs, exprs = FL.filter_universe(tier, seed)
    rec = U.Recorder(f"{len(exprs)} well-typed filter expressions (depth <= {2 if tier == 'quick' else 3}) x 4 spellings x {len(docs)} documents")
    env = jsonpath.JSONPathEnvironment()
    for e in exprs:
        wants = None
        seen = set()
        for style in (0, 16, 2, 32):
            text = FL.render_filter_query(e, style)
            if text in seen:
                continue
            seen.add(text)
            try:
                path = env.compile(text)
            except Exception as ex:  # noqa: BLE001
                rec.fail(f"compile:{text}", f"well-typed RFC 9535 query {text!r} does not compile: {type(ex).__name__}: {ex}",
                         f"import jsonpath\ntry:\n    jsonpath.compile({text!r})\nexcept Exception as e:\n    print(type(e).__name__, e); sys.exit(1)\nsys.exit(0)")
                continue
            if wants is None:
                wants = [FL.reference_filter(e, d) for d in docs]
            for d, want in zip(docs, wants):
                try:
                    got = path.findall(d)
                except Exception as ex:  # noqa: BLE001
                    got = f"raises {type(ex).__name__}: {ex}"
                if isinstance(got, list) and U.same_values(got, want):
                    rec.ok((text, len(want)) if 0 < len(want) < len(d) else None, {"query": text, "document": d, "selected": want} if want else None)
                else:
                    rec.fail(f"{text}|{d!r}", f"findall({text!r}, {d!r}) -> {got!r} but RFC 9535 selects {want!r}",
                             f"import jsonpath\ngot = jsonpath.findall({text!r}, {d!r})\nwant = {want!r}\nprint('got ', got); print('want', want)\nsys.exit(0 if repr(got) == repr(want) else 1)",
                             classify(e, d, got, want))
    for text, doc, want in (
        ("$[?@[-1] == 3]", [[1, 3], [3, 1], [3], [], "x3"], [[1, 3], [3]]),
        ("$[?length(@[-1]) == 2]", [["ab"], ["abc", "xy"], [[1, 2]], [1]], [["ab"], ["abc", "xy"], [[1, 2]]]),
        ("$[?@[-1] == @[0]]", [[1], [1, 2, 1], [1, 2], []], [[1], [1, 2, 1], []]),
        ("$[?@[-2]]", [[1], [1, 2], []], [[1, 2]]),
        ("$.a[?@ == $.a[-1]]", {"a": [1, 2, 1, 2]}, [2, 2]),
        # string candidates whose text happens to be JSON: a string has no children whatever it spells
        ("$[?@.a]", ['{"a": 1}', {"a": 1}, '[1]', "a"], [{"a": 1}]),
        ("$[?@[0]]", ['[1, 2, 3]', [1], '{"0": 1}', "abc"], [[1]]),
        ("$[?@.*]", ['{"a": 1}', '[1]', [0], {}, "x"], [[0]]),
        ("$[?@..a]", ['{"b": {"a": 1}}', {"b": {"a": 1}}], [{"b": {"a": 1}}]),
        ("$[?count(@.*) == 1]", ['{"a": 1}', '[1]', [7], {"k": 1}], [[7], {"k": 1}]),
        ("$[?length(@.a) == 2]", ['{"a": [1, 2]}', {"a": [1, 2]}], [{"a": [1, 2]}]),
        ("$[?@.a == 1]", ['{"a": 1}', {"a": 1}], [{"a": 1}]),
        ("$[?!@.a]", ['{"a": 1}', '[', '{"a"', {"b": 1}], ['{"a": 1}', '[', '{"a"', {"b": 1}]),
        ("$[?@[?@ > 1]]", ['[1, 2]', [1, 2], [1]], [[1, 2]]),
        ("$.*[?@.a]", {"k": ['{"a": 1}'], "l": [{"a": 2}]}, [{"a": 2}]),
    ):
        try:
            got = jsonpath.findall(text, doc)
        except Exception as ex:  # noqa: BLE001
            got = f"raises {type(ex).__name__}: {ex}"
        if isinstance(got, list) and U.same_values(got, want):
            rec.ok((text,))
        else:
            rec.fail(f"fixed-case:{text}", f"findall({text!r}, {doc!r}) -> {got!r} but RFC 9535 selects {want!r} (negative indices are singular segments; a string candidate has no children whatever its text spells)",
                     f"import jsonpath\ngot = jsonpath.findall({text!r}, {doc!r})\nprint(got); sys.exit(0 if got == {want!r} else 1)")
    for fn, pat in REGEX_CASES:
        for text in (f"$[?{fn}(@, '{pat}')]", f'$[?{fn}(@, "{pat}")]', f"$[?!{fn}(@, '{pat}')]"):
            neg = "!" in text
            want = [v for v in REGEX_DOC if regex_reference(fn, pat, v) != neg]
            try:
                got = jsonpath.findall(text, REGEX_DOC)
            except Exception as ex:  # noqa: BLE001
                got = f"raises {type(ex).__name__}: {ex}"
            if isinstance(got, list) and U.same_values(got, want):
                rec.ok((text,))
            else:
                rec.fail(f"regex:{text}", f"findall({text!r}, {REGEX_DOC!r}) -> {got!r} but RFC 9535 2.4.6/2.4.7 selects {want!r}",
                         f"import jsonpath\ngot = jsonpath.findall({text!r}, {REGEX_DOC!r})\nprint(got); sys.exit(0 if got == {want!r} else 1)")
    return rec.result()

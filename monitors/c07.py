"""C07 bounded part: every well-formed, well-typed query of the C01 / C02 universes compiles in every
spelling; every ill-typed or out-of-range one (one rule of RFC 9535 2.4.3 / 2.1 / 2.3 broken at a
time, at every position of the logical expression) is refused at compile time with a JSONPath error."""
from __future__ import annotations

import random

import jsonpath
from jsonpath.exceptions import JSONPathError
from monitors import filters as FL
from monitors import universe as U

MAXI = 2**53 - 1
BAD_SHAPES = [
    "$[]", "$[,]", "$[1,]", "$['a',]", "$[1,,2]", "$[01]", "$[00]", "$[-01]", "$[-0]", "$[007]", "$.a[-010].b", "$[0, -01]", "$[?@[-01] == 1]", "$[?@[01] == 1]",
    f"$[{MAXI + 1}]", f"$[-{MAXI + 1}]", f"$[{MAXI + 1}:]", f"$[:{MAXI + 1}]", f"$[::{MAXI + 1}]", f"$[:-{MAXI + 1}]", f"$[1::-{MAXI + 1}]", f"$[:5:{MAXI + 1}]",
    f"$[0:1:{MAXI + 1}]", f"$[?@[{MAXI + 1}] == 1]", f"$..[{MAXI + 1}]", f"$[0, {MAXI + 1}]",
    # a logical expression (parenthesised, negated, comparison, && / ||) where a function wants a value or nodes:
    # none of the five standard functions has a logical-typed parameter
    "$[?count((@.*)) == 2]", "$[?value((@.a)) == 'b']", "$[?length((@.a)) == 2]", "$[?length((1)) == 1]", "$[?length((length(@.a))) == 1]", "$[?match((@.a), 'a')]",
    "$[?search(@.a, (@.b))]", "$[?length(!@.a) == 1]", "$[?count(!@.*) == 1]", "$[?length(@.a == 1) == 1]", "$[?length(@.a && @.b) == 1]", "$[?count(@.a || @.b) == 1]",
    "$[?length((@.a == 1)) == 1]", "$[?value(!(@.a)) == 1]", "$[?match(@.a, !@.b)]", "$[?length(((@.a))) == 1]",
    "$[?1]", "$[?'a']", "$[?true]", "$[?null]", "$[?1.5]", "$[?@.a && 1]", "$[?1 || @.a]", "$[?!true]", "$[?(1)]", "$[?@.a == 1 && 'x']",
]
GOOD_SHAPES = ["$[?@[-1] == 3]", "$[?length(@[-1]) == 1]", "$[?@.a[-2].b == $[-1]]", "$[\"a\x7fb\"]", "$[?@['k\x7f'] == 1]", "$['\\\\\"']", "$[:]", "$[::]", "$[::1]",
               f"$[{MAXI}]", f"$[-{MAXI}]", f"$[:{MAXI}]", f"$[::-{MAXI}]", "$[0]", "$[-1]", "$[10]", "$[1, 2]", "$[ 1 , 2 ]", "$['a', 1, 1:2, *]", "$[?@.a == 1]", "$[?!@.a]", "$[?(@.a)]"]


def run(tier, seed):
    rng = random.Random(seed * 271 + 9)
    docs, queries = U.universe(tier, seed, n_queries_quick=150, n_queries_thorough=2000)
    fdocs, exprs = FL.filter_universe(tier, seed, n_quick=350, n_thorough=5000)
    n_bad = 500 if tier == "quick" else 8000
    rec = U.Recorder(f"acceptance: {len(queries)} selector queries x renderings + {len(exprs)} well-typed filter expressions x 4 spellings + {len(GOOD_SHAPES)} boundary shapes; rejection: {n_bad} ill-typed expressions (9 rule-breaking schemes, every logical position) + {len(BAD_SHAPES)} malformed / out-of-range shapes")
    env = jsonpath.JSONPathEnvironment()

    def accept(text, why):
        try:
            env.compile(text)
            rec.ok(("ok", text))
        except Exception as e:  # noqa: BLE001
            rec.fail(f"accept:{text}", f"well-formed, well-typed query {text!r} ({why}) is refused: {type(e).__name__}: {e}",
                     f"import jsonpath\ntry:\n    jsonpath.compile({text!r})\nexcept Exception as e:\n    print(type(e).__name__, e); sys.exit(1)\nsys.exit(0)")

    def reject(text, why, finding=None):
        try:
            p = env.compile(text)
        except JSONPathError:
            rec.ok(("rejected", text), {"query": text, "refused_because": why} if len(rec.samples) < 3 else None)
            return
        except Exception as e:  # noqa: BLE001
            rec.fail(f"reject-kind:{text}", f"{text!r} ({why}) is refused with {type(e).__name__}, not a JSONPath error", "sys.exit(2)")
            return
        rec.fail(f"reject:{text}", f"{text!r} must be refused at compile time ({why}) but compiles to {str(p)!r}",
                 f"import jsonpath\nfrom jsonpath.exceptions import JSONPathError\ntry:\n    jsonpath.compile({text!r})\nexcept JSONPathError as e:\n    print('refused:', e); sys.exit(0)\nprint('compiled'); sys.exit(1)", finding)

    for q in queries:
        for text in U.renderings(q):
            accept(text, "standard selectors")
    for e in exprs:
        for style in (0, 16, 2, 32):
            accept(FL.render_filter_query(e, style), "well-typed filter expression")
    for t in GOOD_SHAPES:
        accept(t, "boundary shape")
    # digits that are not ASCII are no numbers: never an index (so never one with a hidden leading zero), a slice bound or a number literal
    for d in ("٠١", "١", "０１", "１", "٠"):
        for text, what in ((f"$[{d}]", "index"), (f"$[0, {d}]", "index"), (f"$[{d}:]", "slice"), (f"$[:{d}]", "slice"), (f"$[::{d}]", "slice"), (f"$[?@.a == {d}]", "literal"), (f"$[?@.a == {d}.5]", "literal"), (f"$[?@[{d}] == 1]", "index")):
            try:
                p = env.compile(text)
            except JSONPathError:
                rec.ok(("non-ascii-digits", text))
                continue
            except Exception as e:  # noqa: BLE001
                rec.fail(f"reject-kind:{text}", f"{text!r} is refused with {type(e).__name__}, not a JSONPath error", "sys.exit(2)")
                continue
            printed = str(p)
            if what == "index" and ("'" + d + "'" in printed) and not any(ch.isdigit() and ch.isascii() for ch in printed.replace("0, ", "").replace("== 1", "")):
                rec.ok(("non-ascii-digits-name", text))  # a bare member name (documented extension)
            else:
                rec.fail(f"reject:{text}", f"{text!r} is written with digits that are not ASCII; it must be refused or read as a member name, but compiles to {printed!r} (an index with a leading zero / a number the RFC grammar does not have)",
                         f"import jsonpath\nfrom jsonpath.exceptions import JSONPathError\ntry:\n    p = jsonpath.compile({text!r})\nexcept JSONPathError as e:\n    print('refused:', e); sys.exit(0)\nprint('compiled to', str(p)); sys.exit(0 if {d!r} in str(p) else 1)")
    for t in BAD_SHAPES:
        reject(t, "malformed, leading zero, out of range or uncompared literal", classify_shape(t))
    for _ in range(n_bad):
        e = FL.gen_illtyped(rng)
        if FL.well_typed(e):
            continue
        for style in (0, 16):
            t = FL.render_filter_query(e, style)
            reject(t, "breaks a typing rule of RFC 9535 2.4.3", classify_expr(e))
    return rec.result()


def classify_shape(t):
    return None


def classify_expr(e):
    return None

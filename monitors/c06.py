"""C06 bounded cross-check (and witness search for the opaque parts of the proof): token-soup and
single-edit mutation fuzzing.  Contract: every call returns or raises inside its documented family,
str(exception) succeeds, and compilation finishes within the alarm.

  query text      -> compile: JSONPathError family; evaluate: JSONPathError family
  pointer text    -> JSONPointerError (or RelativeJSONPointerError for relative text)
  resolution      -> JSONPointerResolutionError
  patch build/apply on lists of operations -> JSONPatchError"""
from __future__ import annotations

import random
import signal

import jsonpath
from jsonpath import JSONPatch
from jsonpath import JSONPointer
from jsonpath import RelativeJSONPointer
from jsonpath.exceptions import JSONPatchError
from jsonpath.exceptions import JSONPathError
from jsonpath.exceptions import JSONPointerError
from jsonpath.exceptions import JSONPointerResolutionError
from jsonpath.exceptions import RelativeJSONPointerError
from monitors import pointers as PU
from monitors import universe as U

QUERY_TOKENS = [
    "$", "@", "^", "_", "#", "~", ".", "..", "[", "]", "(", ")", "*", ",", ":", "?", "!", "&&", "||", "==", "!=", "<", "<=", ">", ">=", "<>", "=~",
    " in ", " contains ", " and ", " or ", " not ", "'a'", '"b"', "a", "b", "0", "1", "-1", "01", "1e2", "1E2", "1e400", "1.5", "1.5e400", "-0", "9007199254740992",
    "true", "false", "null", "nil", "none", "undefined", "missing", "True", "/a/", "/(/", "/[/", "/*/", "/a/i", "/\\\\/", "length(", "count(", "value(", "match(", "search(",
    "typeof(", "isinstance(", "foo(", "|", "&", " ", "\n", "'", '"', "\\", "'\\u12'", "'\\ud800'", "'\\x'", "é", "😀", "::", "0:", ":-1", "1:2:0", "[?", "?@", "@.a", "$.a", "_.x",
]
SEED_QUERIES = U.EXTENSION_QUERIES + U.COMPOUND_QUERIES + [
    "$[?@.a == 1e400]", "$[1e2]", "$[?@ =~ /(/]", "$[?1 in @]", "$[?@ in $[0]]", "$[?count(@) == 1]", "$[?length(@.a) > 1e2]", "$[?@.a == 1.5e400]",
    "$[?isinstance(@.a, 'number')]", "$[?is(@.a, @.b)]", "$[?isinstance(@, @)]", "$[?is(@.a, $[4])]", "$[?typeof(@.a) == 'string']", "$[?typeof(@) == @.a]", "$[?isinstance(@.b, 'array')]",
    "$[?@ =~ /(?u)a/a]", "$[?@ =~ /(?a)a/]", "$[?@ =~ /(?i)a/s]", "$[?@ =~ /a(?i)b/]", "$[?@ =~ /a{99999999999}/]",
    "$[?match(@.a, 'a{99999999999}')]", "$[?search(@.a, 'a{2,1}')]", "$[?match(@.a, '(?P<n>a)(?P<n>b)')]",
    "$[?match(@.a, '(')]", "$[?search(@, '[')]", "$[?@ =~ /[/]", "$[?typeof(@) == 1]", "$[?@.a == -1e-400]", "$['\\ud800']", "$['\\u12']", "$[?@ == '\\x']",
]
POINTER_TOKENS = ["/", "~", "~0", "~1", "~2", "#", "#0", "#x", "-", "0", "1", "01", "+1", "a", "²", "٣", "1²", "１", "\\", "\\u0041", "\\ud800", "\\ud83d\\ude00", "\\x", "%41", "%", "%zz", " ", "é", "9" * 30]
REL_TOKENS = ["0", "1", "2", "01", "+", "-", "+1", "-1", "+0", "+12", "#", "/", "/a", "/0", " ", "x", "", "²", "/²"]
FAMILY = {
    "compile": (JSONPathError,),
    "evaluate": (JSONPathError,),
    "pointer": (JSONPointerError, RelativeJSONPointerError),
    "resolve": (JSONPointerResolutionError,),
    "patch": (JSONPatchError,),
}


class Timeout(Exception):
    pass


def _alarm(signum, frame):
    raise Timeout()


def guarded(kind, fn):
    """-> None (ok) | description of the escape"""
    try:
        fn()
    except FAMILY[kind] as e:
        try:
            str(e)
            repr(e)
        except Exception as e2:  # noqa: BLE001
            return f"rendering {type(e).__name__} raised {type(e2).__name__}: {e2}"
    except RecursionError:
        return None  # nesting beyond the stated depth
    except Timeout:
        return "did not finish within 2 s"
    except Exception as e:  # noqa: BLE001
        return f"{type(e).__name__}: {str(e)[:80]}"
    return None


def classify(kind, text, why):
    return None


def mutate(rng, s, tokens):
    k = rng.random()
    i = rng.randrange(len(s) + 1)
    if k < 0.4:
        return s[:i] + rng.choice(tokens) + s[i:]
    if k < 0.7 and s:
        j = min(len(s), i + rng.randint(1, 3))
        return s[:i] + s[j:]
    if k < 0.85 and s:
        return s[:i] + rng.choice(tokens) + s[i + 1:]
    return "".join(rng.choice(tokens) for _ in range(rng.randint(1, 6)))


HUGE = [
    "$[?@.a == " + "9" * 5000 + "]", "$[?@.a == -" + "9" * 5000 + "]", "$[?@.a == 1e400]", "$[?@.a == 1." + "0" * 5000 + "]", "$[" + "9" * 5000 + "]",
    "$[1:" + "9" * 5000 + "]", "$[?@.a == 1e" + "9" * 30 + "]", "$[?@.a == " + "9" * 400 + "e5]", "$['" + "a" * 20000 + "']", "$[?@.a == '" + "\\\\" * 3000 + "']",
]


def run(tier, seed):
    import warnings

    warnings.simplefilter("ignore")
    rng = random.Random(seed * 65537 + 3)
    n = 9000 if tier == "quick" else 400000
    rec = U.Recorder(f"{n} fuzzed query texts (token soup + single edits of {len(SEED_QUERIES)} seeds) x 4 documents; {n // 3} pointer texts x 4 documents; {n // 6} relative pointers; {n // 3} patches", max_failures=60)
    env = jsonpath.JSONPathEnvironment()
    docs = [[{"a": 1, "b": "abc"}, "xyz", 0, None, [1, "a"], {"a": {"b": [1]}}], ["plain", "{oops", "[1,", {"a": "{x"}, '{"a": 1}'], {"a": "abc", "b": [1, {"a": "x"}], "c": {"a": 1}}, "text", 5]
    old = signal.signal(signal.SIGALRM, _alarm)
    try:
        for i in range(n + len(HUGE)):
            if i >= n:
                text = HUGE[i - n]  # literals and names far beyond any sensible size
            else:
                text = mutate(rng, rng.choice(SEED_QUERIES), QUERY_TOKENS) if i % 4 else "".join(rng.choice(QUERY_TOKENS) for _ in range(rng.randint(1, 8)))
            box = {}
            signal.setitimer(signal.ITIMER_REAL, 2.0)
            why = guarded("compile", lambda: box.setdefault("p", env.compile(text)))
            signal.setitimer(signal.ITIMER_REAL, 0)
            if why:
                rec.fail(f"compile:{why[:40]}", f"compile({text!r}) -> {why}",
                         f"import jsonpath\nfrom jsonpath.exceptions import JSONPathError\ntry:\n    jsonpath.compile({text!r})\nexcept JSONPathError:\n    sys.exit(0)\nexcept Exception as e:\n    print(type(e).__name__, e); sys.exit(1)\nsys.exit(0)", classify("compile", text, why))
                continue
            rec.ok(("q", text) if "p" in box else None)
            if "p" in box:
                for d in docs:
                    why = guarded("evaluate", lambda: box["p"].findall(d, filter_context={"x": 1}))
                    if why:
                        rec.fail(f"evaluate:{why[:40]}", f"compile({text!r}).findall({d!r}) -> {why}",
                                 f"import jsonpath\nfrom jsonpath.exceptions import JSONPathError\ntry:\n    jsonpath.findall({text!r}, {d!r}, filter_context={{'x': 1}})\nexcept JSONPathError:\n    sys.exit(0)\nexcept Exception as e:\n    print(type(e).__name__, e); sys.exit(1)\nsys.exit(0)", classify("evaluate", text, why))
                    else:
                        rec.ok()
                try:
                    str(box["p"])
                except Exception as e:  # noqa: BLE001
                    rec.fail(f"str:{text}", f"str(compile({text!r})) raised {type(e).__name__}: {e}", "sys.exit(2)")
        pdocs = PU.docs("quick", seed)[:4]
        for i in range(n // 3):
            text = "".join(rng.choice(POINTER_TOKENS) for _ in range(rng.randint(0, 5)))
            for ue in (True, False):
                for ud in (False, True):
                    box = {}
                    why = guarded("pointer", lambda: box.setdefault("p", JSONPointer(text, unicode_escape=ue, uri_decode=ud)))
                    if why:
                        rec.fail(f"pointer:{why[:40]}", f"JSONPointer({text!r}, unicode_escape={ue}, uri_decode={ud}) -> {why}",
                                 f"from jsonpath import JSONPointer\nfrom jsonpath.exceptions import JSONPointerError\ntry:\n    JSONPointer({text!r}, unicode_escape={ue}, uri_decode={ud})\nexcept JSONPointerError:\n    sys.exit(0)\nexcept Exception as e:\n    print(type(e).__name__, e); sys.exit(1)\nsys.exit(0)")
                        continue
                    rec.ok(("p", text) if "p" in box else None)
                    if "p" in box:
                        for d in pdocs:
                            why = guarded("resolve", lambda: box["p"].resolve(d)) or guarded("resolve", lambda: box["p"].exists(d)) or guarded("resolve", lambda: box["p"].resolve_parent(d))
                            if why:
                                rec.fail(f"resolve:{why[:40]}", f"JSONPointer({text!r}).resolve/exists/resolve_parent({d!r}) -> {why}",
                                         f"from jsonpath import JSONPointer\nfrom jsonpath.exceptions import JSONPointerResolutionError\np = JSONPointer({text!r}, unicode_escape={ue}, uri_decode={ud})\ntry:\n    p.resolve({d!r}); p.resolve_parent({d!r})\nexcept JSONPointerResolutionError:\n    sys.exit(0)\nexcept Exception as e:\n    print(type(e).__name__, e); sys.exit(1)\nsys.exit(0)")
                            else:
                                rec.ok()
                        try:
                            str(box["p"]), repr(box["p"]), box["p"].parent(), hash(box["p"])
                        except Exception as e:  # noqa: BLE001
                            rec.fail(f"ptrstr:{text}", f"str/repr/parent of JSONPointer({text!r}) raised {type(e).__name__}", "sys.exit(2)")
        for i in range(n // 6):
            rel = "".join(rng.choice(REL_TOKENS) for _ in range(rng.randint(1, 4)))
            base = "".join(rng.choice(["/a", "/0", "/1", "", "/b/2", "/²", "/a/٣"]) for _ in range(rng.randint(0, 3)))
            why = guarded("pointer", lambda: RelativeJSONPointer(rel).to(JSONPointer(base))) or guarded("pointer", lambda: JSONPointer(base).to(rel)) or guarded("pointer", lambda: str(RelativeJSONPointer(rel)))
            if why:
                rec.fail(f"rel:{why[:40]}", f"RelativeJSONPointer({rel!r}).to(JSONPointer({base!r})) -> {why}",
                         f"from jsonpath import JSONPointer, RelativeJSONPointer\nfrom jsonpath.exceptions import JSONPointerError, RelativeJSONPointerError\ntry:\n    RelativeJSONPointer({rel!r}).to(JSONPointer({base!r}))\nexcept (JSONPointerError, RelativeJSONPointerError):\n    sys.exit(0)\nexcept Exception as e:\n    print(type(e).__name__, e); sys.exit(1)\nsys.exit(0)")
            else:
                rec.ok(("r", rel))
        for base in ("/²", "/foo/²", "/٣", "/1²", "/foo/１", "/-1", "/+1", "/ 1"):
            for rel in ("0+1", "0-1", "1+1", "0+1/x", "0-1#", "0#", "0+12"):
                why = guarded("pointer", lambda: RelativeJSONPointer(rel).to(JSONPointer(base))) or guarded("pointer", lambda: JSONPointer(base).to(rel))
                if why:
                    rec.fail(f"rel-digit:{why[:40]}", f"JSONPointer({base!r}).to({rel!r}) -> {why}",
                             f"from jsonpath import JSONPointer\nfrom jsonpath.exceptions import JSONPointerError, RelativeJSONPointerError\ntry:\n    JSONPointer({base!r}).to({rel!r})\nexcept (JSONPointerError, RelativeJSONPointerError):\n    sys.exit(0)\nexcept Exception as e:\n    print(type(e).__name__, e); sys.exit(1)\nsys.exit(0)")
                else:
                    rec.ok(("rel-digit", base, rel))
        # index-like tokens (plain, and behind the non-standard `#` marker) of every sign and size against arrays
        # of every small length, at the root and below a member, through every resolving entry point and every
        # patch operation: exhaustive (a `#` index below -len reached range.__getitem__ in a seeded change)
        itoks = ["#-1", "#-2", "#-3", "#-4", "#-99", "#0", "#1", "#2", "#3", "#99", "#01", "#+1", "#-0", "#-", "#²", "#", "-1", "-2", "-3", "-4", "-99", "0", "3", "99", "-0", "-"]
        for ln in range(4):
            arr = list(range(10, 10 + ln))
            for t in itoks:
                for text, d in (("/" + t, arr), ("/a/" + t, {"a": arr}), ("/a/" + t + "/x", {"a": arr}), ("/0/" + t, [arr])):
                    src = f"from jsonpath import JSONPointer\nfrom jsonpath.exceptions import JSONPointerResolutionError\np = JSONPointer({text!r})\nfor f in (p.resolve, p.exists, p.resolve_parent, lambda x: p.resolve(x, default=None)):\n    try:\n        f({d!r})\n    except JSONPointerResolutionError:\n        pass\n    except Exception as e:\n        print(type(e).__name__, e); sys.exit(1)\nsys.exit(0)"
                    box = {}
                    why = guarded("pointer", lambda: box.setdefault("p", JSONPointer(text)))
                    if why:
                        rec.fail(f"index-token:{why[:40]}", f"JSONPointer({text!r}) -> {why}", src)
                        continue
                    if "p" not in box:
                        rec.ok()
                        continue
                    pp = box["p"]
                    why = guarded("resolve", lambda: pp.resolve(d)) or guarded("resolve", lambda: pp.exists(d)) or guarded("resolve", lambda: pp.resolve_parent(d)) or guarded("resolve", lambda: pp.resolve(d, default=None))
                    if why:
                        rec.fail(f"index-token:{why[:40]}", f"JSONPointer({text!r}).resolve/exists/resolve_parent/resolve(default=None)({d!r}) -> {why}", src)
                    else:
                        rec.ok(("index-token", t, ln))
                    for opn in ("add", "remove", "replace", "test", "addne", "addap", "move", "copy"):
                        op = {"op": opn, "path": text, "value": 1}
                        if opn in ("move", "copy"):
                            op = {"op": opn, "from": text, "path": "/zz"} if isinstance(d, dict) else {"op": opn, "from": text, "path": "/-"}
                        why = guarded("patch", lambda: JSONPatch([op]).apply(__import__("copy").deepcopy(d)))
                        if why:
                            rec.fail(f"index-token-patch:{why[:40]}", f"JSONPatch([{op!r}]).apply({d!r}) -> {why}",
                                     f"import copy\nfrom jsonpath import JSONPatch\nfrom jsonpath.exceptions import JSONPatchError\ntry:\n    JSONPatch([{op!r}]).apply({d!r})\nexcept JSONPatchError:\n    sys.exit(0)\nexcept Exception as e:\n    print(type(e).__name__, e); sys.exit(1)\nsys.exit(0)")
                        else:
                            rec.ok()
        opnames = ["add", "remove", "replace", "move", "copy", "test", "addne", "addap", "nope", 1, None]
        ppaths = ["", "/a", "/a/0", "/b/-", "/b/0", "/b/5", "/#", "/a/#0", "/~", "/-", "/c/a", "a", "/b/01", "/\\", "/b/-1", 5, None, "/a\\u00",
                  "/#a", "/#b", "/b/#0", "/b/#1", "/b/#5", "/#0", "/#1", "/~a", "/b/~0", "/a/#a", "/#c", "/2/#a", "/1/#0"]
        for i in range(n // 3):
            ops = []
            for _ in range(rng.randint(1, 3)):
                op = {}
                if rng.random() < 0.95:
                    op["op"] = rng.choice(opnames)
                if rng.random() < 0.9:
                    op["path"] = rng.choice(ppaths)
                if rng.random() < 0.6:
                    op["from"] = rng.choice(ppaths)
                if rng.random() < 0.7:
                    op["value"] = rng.choice([1, "v", [], {"a": 1}, None])
                ops.append(op)
            if rng.random() < 0.05:
                ops = rng.choice([5, "[]", '[{"op": "add"}]', None, [1], [[]], {"op": "add"}])
            d = rng.choice([{"a": {"a": 1}, "b": [1, 2], "c": "s"}, [1, [2], {"a": 3}], {"a": 1}])
            why = guarded("patch", lambda: JSONPatch(ops).apply(__import__("copy").deepcopy(d)))
            if isinstance(ops, (int, str)) or ops is None:
                # the claim is about *lists of operations*; other inputs only must not crash the harness
                rec.ok()
                continue
            if why:
                rec.fail(f"patch:{why[:40]}", f"JSONPatch({ops!r}).apply({d!r}) -> {why}",
                         f"from jsonpath import JSONPatch\nfrom jsonpath.exceptions import JSONPatchError\ntry:\n    JSONPatch({ops!r}).apply({d!r})\nexcept JSONPatchError:\n    sys.exit(0)\nexcept Exception as e:\n    print(type(e).__name__, e); sys.exit(1)\nsys.exit(0)")
            else:
                rec.ok(("patch", repr(ops)))
    finally:
        signal.setitimer(signal.ITIMER_REAL, 0)
        signal.signal(signal.SIGALRM, old)
    return rec.result()

"""C13 bounded part: every documented non-standard spelling lexes / parses to the same query as its
standard form in every syntactic position, and the evaluation-side extensions mean what the
documentation says (reference results computed independently here)."""
from __future__ import annotations

import re

import jsonpath
from monitors import universe as U

# (extension form, equivalent standard / primitive form)
PAIRS = [
    ("a", "$['a']"), ("a.b", "$['a']['b']"), ("a[0]", "$['a'][0]"), ("$[a]", "$['a']"), ("$[a, b]", "$['a', 'b']"), ("$[a][b]", "$['a']['b']"), ("b[0].a", "$['b'][0]['a']"),
    ("$..[a]", "$..['a']"), ("[a]", "$['a']"), ("a..b", "$['a']..['b']"), ("$.a.*", "$['a'][*]"),
    ("$[?@.a and @.b]", "$[?@.a && @.b]"), ("$[?@.a or @.b]", "$[?@.a || @.b]"), ("$[?not @.a]", "$[?!@.a]"), ("$[?not (@.a == 1)]", "$[?!(@.a == 1)]"),
    ("$[?@.a and @.b or @.c]", "$[?@.a && @.b || @.c]"), ("$[?not @.a and @.b]", "$[?!@.a && @.b]"), ("$.x[?@.a and not @.b]", "$.x[?@.a && !@.b]"),
    ("$[?@.a <> 1]", "$[?@.a != 1]"), ("$[?@.a <> @.b]", "$[?@.a != @.b]"), ("$[?1 <> @.a]", "$[?1 != @.a]"), ("$[?@.a <> 'x' and @.b]", "$[?@.a != 'x' && @.b]"),
    ("$[?@.a == nil]", "$[?@.a == null]"), ("$[?@.a == none]", "$[?@.a == null]"), ("$[?@.a == None]", "$[?@.a == null]"), ("$[?@.a == Nil]", "$[?@.a == null]"), ("$[?@.a == Null]", "$[?@.a == null]"),
    ("$[?@.a != nil]", "$[?@.a != null]"), ("$[?@.b == True]", "$[?@.b == true]"), ("$[?@.b == False]", "$[?@.b == false]"), ("$[?@.b != True]", "$[?@.b != true]"),
    ("$[?@.a == undefined]", "$[?!@.a]"), ("$[?@.a == missing]", "$[?!@.a]"), ("$[?@.a != undefined]", "$[?@.a]"), ("$[?@.a != missing]", "$[?@.a]"), ("$[?undefined == @.a]", "$[?!@.a]"),
    ("$[?@.a == undefined or @.b]", "$[?!@.a || @.b]"), ("$.x[?@.a != missing and @.b]", "$.x[?@.a && @.b]"),
    ("$[?length(@.a) == 1 and count(@.*) > 0]", "$[?length(@.a) == 1 && count(@.*) > 0]"),
    ("$[?@.a==nil]", "$[?@.a==null]"), ("$[ ? @.a  and  @.b ]", "$[?@.a&&@.b]"),
]
DOCS = [
    [{"a": 1, "b": True, "c": None}, {"a": None, "b": False}, {"b": 1}, {"a": "x", "c": 0}, {}, {"a": 0, "b": None, "c": 1}],
    {"a": {"b": 1, "a": None}, "b": [{"a": 1}, {"a": None}, {}], "x": [{"a": 1, "b": 0}, {"a": 0}, {"b": True}]},
    {"a": [1, 2], "b": {"a": 2}},
    {"x": [{"a": "x", "b": "y"}, {"a": "z"}]},
]


def run(tier, seed):
    rec = U.Recorder(f"{len(PAIRS)} (extension form, standard form) pairs x {len(DOCS)} documents; keys selector, fake root, current key, filter context at depth 1-3, in/contains, =~ with flags: independent reference results")
    env = jsonpath.JSONPathEnvironment()
    for ext, std in PAIRS:
        try:
            pe, ps = env.compile(ext), env.compile(std)
        except Exception as e:  # noqa: BLE001
            rec.fail(f"compile:{ext}", f"{ext!r} / {std!r}: {type(e).__name__}: {e}", f"import jsonpath\njsonpath.compile({ext!r}); jsonpath.compile({std!r})")
            continue
        for d in DOCS:
            a, b = pe.findall(d), ps.findall(d)
            if U.same_values(a, b):
                rec.ok((ext, repr(d)[:20]) if a else None, {"extension": ext, "standard": std, "document": d, "result": a} if a else None)
            else:
                rec.fail(f"{ext}|{d!r}", f"{ext!r} -> {a!r} but its standard form {std!r} -> {b!r} on {d!r}",
                         f"import jsonpath\nd = {d!r}\na, b = jsonpath.findall({ext!r}, d), jsonpath.findall({std!r}, d)\nprint(a, b); sys.exit(0 if repr(a) == repr(b) else 1)")

    def expect(text, d, want, fc=None, what=""):
        try:
            got = env.findall(text, d, filter_context=fc)
        except Exception as e:  # noqa: BLE001
            got = f"raises {type(e).__name__}: {e}"
        if isinstance(got, list) and U.same_values(got, want):
            rec.ok((text, repr(d)[:30]), {"query": text, "document": d, "filter_context": fc, "result": want} if len(rec.samples) < 4 else None)
        else:
            rec.fail(f"doc:{text}|{d!r}|{fc!r}", f"{what}: findall({text!r}, {d!r}, filter_context={fc!r}) -> {got!r}, documented meaning gives {want!r}",
                     f"import jsonpath\ngot = jsonpath.findall({text!r}, {d!r}, filter_context={fc!r})\nprint(got, {want!r}); sys.exit(0 if repr(got) == repr({want!r}) else 1)")

    # keys selector: member names in order, nothing for other values
    for d in ({"b": 1, "a": {"x": 1, "": 2}}, [1, {"k": 1}], "s", 5, {}):
        expect("$[~]", d, list(d.keys()) if isinstance(d, dict) else [], what="keys selector")
        expect("$.~", d, list(d.keys()) if isinstance(d, dict) else [], what="keys selector (shorthand)")
        expect("$..~", d, [k for v in _walk(d) if isinstance(v, dict) for k in v.keys()], what="keys selector after descent")
        expect("$[*][~]", d, [k for v in (d.values() if isinstance(d, dict) else d if isinstance(d, list) else []) if isinstance(v, dict) for k in v], what="keys of children")
    # fake root: the document itself wrapped for filtering
    for d in ({"a": 1}, {"a": 2}, [1], 5, None, {"a": None}):
        expect("^[?@.a == 1]", d, [d] if isinstance(d, dict) and d.get("a") == 1 and d.get("a") is not True else [], what="fake root")
        expect("^[?@.a]", d, [d] if isinstance(d, dict) and "a" in d else [], what="fake root existence")
        expect("^[0]", d, [d], what="fake root index")
        expect("^", d, [[d]], what="fake root alone")
    # the fake root in every operand position of a compound query
    d = {"kind": "order", "items": [1, 2]}
    expect("$.items[*] | ^[?@.kind == 'order']", d, [1, 2, d], what="fake root after |")
    expect("^[?@.kind == 'order'] | $.items[*]", d, [d, 1, 2], what="fake root before |")
    expect("^[?@.kind == 'order'] & ^[?@.items]", d, [d], what="fake root on both sides of &")
    expect("$.items[*] | $.kind | ^[?@.items]", d, [1, 2, "order", d], what="fake root as third operand")
    expect("$.nope | ^", d, [[d]], what="bare fake root after |")
    # current key identifier
    expect("$[?# == 'a']", {"a": 1, "b": 2}, [1], what="current key (member name)")
    expect("$[?# == 0]", [7, 8], [7], what="current key (index 0)")
    expect("$[?# > 0]", [7, 8, 9], [8, 9], what="current key (index)")
    expect("$.x[?# == 1]", {"x": [5, 6]}, [6], what="current key nested")
    expect("$[?# == 'b' || # == 'c']", {"a": 1, "b": 2, "c": 3}, [2, 3], what="current key in a logical expression")
    expect("$[?@[?# == 0]]", [[1, 2], [], [3]], [[1, 2], [3]], what="current key in a nested filter")
    # filter context at any nesting depth
    fc = {"x": 2, "names": ["a"], "deep": {"k": 1}}
    expect("$[?@ == _.x]", [1, 2, 3], [2], fc, "filter context depth 1")
    expect("$.a[?@.b[?@ == _.x]]", {"a": [{"b": [1, 2]}, {"b": [3]}]}, [{"b": [1, 2]}], fc, "filter context depth 2")
    expect("$.a[?@.b[?@.c[?@ == _.x]]]", {"a": [{"b": [{"c": [2]}]}, {"b": [{"c": [3]}]}]}, [{"b": [{"c": [2]}]}], fc, "filter context depth 3")
    expect("$[?@.k == _.deep.k]", [{"k": 1}, {"k": 2}], [{"k": 1}], fc, "filter context sub-path")
    expect("$[?_.x]", [1, 2], [1, 2], fc, "filter context existence")
    expect("$[?_.nope]", [1, 2], [], fc, "filter context missing")
    expect("$[?@ == _.x]", [1, 2], [], None, "no filter context")
    expect("$[?count(_.names[*]) == @]", [0, 1, 2], [1], fc, "filter context as function argument")
    # in / contains: arrays, strings, object keys; never an exception
    expect("$[?@ in [1, 'a', true]]", [1, "a", True, 2, "b", None, [1]], [1, "a", True], what="in list literal")
    expect("$[?'a' in @]", ["abc", "xyz", ["a"], {"a": 1}, {"b": 1}, 5, None, ["b"]], ["abc", ["a"], {"a": 1}], what="in: string, array, object keys")
    expect("$[?'foo' in @.name]", [{"name": "seafood"}, {"name": "bar"}, {"name": ["foo"]}, {"name": {"foo": 1}}, {"name": "fo"}], [{"name": "seafood"}, {"name": ["foo"]}, {"name": {"foo": 1}}], what="in: a needle of several characters in a string")
    expect("$[?@.name contains 'foo']", [{"name": "seafood"}, {"name": "bar"}, {"name": ["foo"]}, {"name": {"foo": 1}}, {"name": "fo"}], [{"name": "seafood"}, {"name": ["foo"]}, {"name": {"foo": 1}}], what="contains: a needle of several characters in a string")
    expect("$[?'' in @]", ["abc", "", [""], []], ["abc", "", [""]], what="in: the empty needle")
    expect("$[?@ contains 'a']", ["abc", "xyz", ["a"], {"a": 1}, 5], ["abc", ["a"], {"a": 1}], what="contains")
    expect("$[?@ contains 2]", [[1, 2], [3], "2", {"2": 1}, 2], [[1, 2]], what="contains with a number")
    expect("$[?1 in @]", ["1", [1], {"1": 1}, 1, None], [[1]], what="in with a non-string needle")
    expect("$[?@.nums contains 2.5]", [{"nums": [1, 2.5]}, {"nums": [2]}], [{"nums": [1, 2.5]}], what="contains float")
    expect("$[?@.nums contains null]", [{"nums": [None]}, {"nums": [0]}], [{"nums": [None]}], what="contains null")
    # =~ full match honouring flags
    strs = ["abc", "ABC", "xabc", "abcx", "a\nbc", "", "a", 5, None]
    for pat, flags in (("abc", ""), ("abc", "i"), ("a.*", ""), ("a.*", "s"), ("ab|abc", ""), ("foo|foobar", ""), ("^abc$", ""), ("^a$.*", "m"), ("A.C", "is")):
        fl = sum({"i": re.I, "m": re.M, "s": re.S, "a": re.A}[c] for c in flags)
        want = [s for s in strs if isinstance(s, str) and re.fullmatch(pat, s, fl)]
        expect(f"$[?@ =~ /{pat}/{flags}]", strs, want, what="=~ is a full match honouring its flags")
    expect("$[?@ =~ /foo|foobar/]", ["foobar", "foo", "foob"], ["foobar", "foo"], what="=~ full match with alternation")
    return rec.result()


def _walk(v):
    yield v
    if isinstance(v, dict):
        for x in v.values():
            yield from _walk(x)
    elif isinstance(v, list):
        for x in v:
            yield from _walk(x)

"""Shared bounded universes: JSON documents, query ASTs over the RFC 9535 selector grammar,
their surface renderings, and an independent reference evaluator built from the spec functions.

Everything here is deterministic given (tier, seed)."""
from __future__ import annotations

import itertools
import random

import specs.rfc9535 as spec
from jsonpath.match import JSONPathMatch

# names chosen to stress quoting, escaping, look-alikes of indices and reserved words
NAMES = ["a", "b", "", "1", "-1", "a b", "é", "😀", "'", '"', "\\", "a\\", "\n", "and", "true", "~", "#", "$", "0x1", "☺", "~1", "/", "a/b", "m~n", "~01",
         "a\x7fb", "\\\"", "\\'", "\"\\", "a\n", "-",
         # canonically equivalent but different strings (Unicode normalisation must not be applied to names)
         "e\u0301", "\u212b", "\u00c5"]
SAFE_NAMES = ["a", "b", "c1", "_x", "é", "e\u0301"]  # valid as dot shorthand

DOCS = [
    {"a": 1, "b": [1, 2, 3], "c1": {"a": {"a": 2, "b": [4]}}},
    [1, 2, 3, 4, 5],
    [[1, 2], [3, [4, 5]], "abc", {"a": "xyz"}],
    {"a": "abc", "b": 0, "": None, "1": "one", "-1": "minus"},
    {"a": [{"a": 1, "b": True}, {"a": 1.0, "b": False}, {"a": "1", "b": None}, {"b": 0}]},
    {"é": {"😀": [1, {"'": 2}]}, '"': 3, "\\": 4, "a\\": {"b": 5}, "\n": 6, "a b": 7},
    [],
    {},
    "abc",
    0,
    None,
    True,
    1.5,
    [0, False, "", None, [], {}, 1, "a"],
    {"and": 1, "true": 2, "~": 3, "#": 4, "$": 5, "0x1": 6, "☺": 7, "_x": [1, [2, [3]]]},
    {"~1": 1, "/": 2, "a/b": {"m~n": 3, "~01": [4]}, "~0": 5, "~": 6},
    {"a": {"a": {"a": {"b": 1}}}, "b": {"a": {"b": 2}}},
    [[[7]]],
    {"x": 2, "a": [{"b": [1, 2]}, {"b": [3]}]},
    # members whose names are another member's name behind the non-standard `~` / `#` markers (always present, not left to sampling)
    {"~": 1, "": 2, "#": 3, "~1": 4, "1": 5, "#a": {"a": 6}, "a": {"#a": 7, "~a": 8}, "~a": [9]},
    {"e\u0301": 1, "\u00e9": 2, "\u212b": {"\u00c5": 3}, "\u00c5": 4},
]


def gen_docs(rng, n, depth=3):
    out = []
    for _ in range(n):
        out.append(_gen_value(rng, depth))
    return out


def _gen_value(rng, depth):
    r = rng.random()
    if depth == 0 or r < 0.3:
        return rng.choice([None, True, False, 0, 1, -1, 2, 1.0, 0.5, "", "a", "abc", "1", "é"])
    if r < 0.65:
        return [_gen_value(rng, depth - 1) for _ in range(rng.randint(0, 4))]
    keys = rng.sample(NAMES, rng.randint(0, 4))
    return {k: _gen_value(rng, depth - 1) for k in keys}


# ---------------------------------------------------------------- query ASTs
# query   = [segment, ...]
# segment = ("child" | "desc", [selector, ...])
# selector= ("name", str) | ("index", int) | ("slice", start|None, stop|None, step|None) | ("wild",)

INDEXES = [0, 1, -1, 2, -2, 5, -5]
SLICES = [
    (None, None, None), (1, None, None), (None, 2, None), (0, 2, None), (None, None, 2), (None, None, -1),
    (0, None, -1), (-1, None, -1), (1, 3, 1), (3, 1, -1), (None, None, 0), (-2, None, None), (None, -1, None),
    (5, 1, -2), (0, 0, None), (1, 10, 3), (-10, 10, None), (0, None, -2),
]


def gen_selector(rng):
    r = rng.random()
    if r < 0.35:
        return ("name", rng.choice(NAMES))
    if r < 0.55:
        return ("index", rng.choice(INDEXES))
    if r < 0.8:
        return ("slice",) + rng.choice(SLICES)
    return ("wild",)


def gen_query(rng, max_segments=3, max_selectors=3):
    q = []
    for _ in range(rng.randint(1, max_segments)):
        kind = "desc" if rng.random() < 0.3 else "child"
        n = 1 if rng.random() < 0.6 else rng.randint(2, max_selectors)
        q.append((kind, [gen_selector(rng) for _ in range(n)]))
    return q


def all_single_selectors():
    sels = [("name", n) for n in NAMES] + [("index", i) for i in INDEXES] + [("slice",) + s for s in SLICES] + [("wild",)]
    return sels


# ---------------------------------------------------------------- rendering

RESERVED = {"and", "or", "not", "in", "contains", "true", "false", "null", "nil", "none", "undefined", "missing", "True", "False", "None", "Nil", "Null"}


def quote(name, q):
    """RFC 9535 string literal for `name` with quote character q."""
    out = []
    for ch in name:
        if ch == q:
            out.append("\\" + q)
        elif ch == "\\":
            out.append("\\\\")
        elif ch == "\n":
            out.append("\\n")
        elif ch == "\t":
            out.append("\\t")
        elif ch == "\r":
            out.append("\\r")
        elif ch == "\b":
            out.append("\\b")
        elif ch == "\f":
            out.append("\\f")
        elif ord(ch) < 0x20:
            out.append("\\u%04x" % ord(ch))
        else:
            out.append(ch)
    return q + "".join(out) + q


def render_selector(sel, q="'", ws=""):
    k = sel[0]
    if k == "name":
        return quote(sel[1], q)
    if k == "index":
        return str(sel[1])
    if k == "wild":
        return "*"
    _, a, b, c = sel
    s = ("" if a is None else str(a)) + ws + ":" + ws + ("" if b is None else str(b))
    if c is not None:
        s += ws + ":" + ws + str(c)
    return s


def shorthand_ok(sel):
    """Can this single selector be written in dot shorthand?"""
    if sel[0] == "wild":
        return True
    if sel[0] == "name":
        n = sel[1]
        import re

        return bool(re.fullmatch(r"[A-Za-z_\u0080-￿][A-Za-z0-9_\u0080-￿]*", n)) and n not in RESERVED
    return False


def render_query(q, style=0, root="$"):
    """style bits: 1 = use dot shorthand where possible, 2 = double quotes, 4 = blanks inside brackets,
    8 = newline/tab blanks."""
    quote_ch = '"' if style & 2 else "'"
    ws = ("\n\t" if style & 8 else " ") if style & 4 else ""
    out = [root]
    for kind, sels in q:
        lead = ".." if kind == "desc" else ""
        if len(sels) == 1 and (style & 1) and shorthand_ok(sels[0]):
            s = sels[0]
            out.append((lead if kind == "desc" else ".") + ("*" if s[0] == "wild" else s[1]))
        else:
            inner = ("," + ws).join(render_selector(s, quote_ch, ws) for s in sels)
            out.append(lead + "[" + ws + inner + ws + "]")
    return "".join(out)


def renderings(q):
    seen = []
    for style in (0, 1, 2, 3, 4, 5, 6, 12, 13, 14):
        s = render_query(q, style)
        if s not in seen:
            seen.append(s)
    return seen


# ---------------------------------------------------------------- reference evaluation (from the spec functions)

def root_match(doc):
    return JSONPathMatch(filter_context={}, obj=doc, parent=None, path="$", parts=(), root=doc)


def apply_selector(sel, m):
    k = sel[0]
    if k == "name":
        return list(spec.name_selector(sel[1], m))
    if k == "index":
        return list(spec.index_selector(sel[1], m))
    if k == "wild":
        return list(spec.wildcard_selector(m))
    return list(spec.slice_selector(sel[1], sel[2], sel[3], m))


def reference(q, doc):
    """RFC 9535 2.1.2 / 2.5: the nodelist of query AST q on doc, as match records."""
    nodes = [root_match(doc)]
    for kind, sels in q:
        nxt = []
        for m in nodes:
            inputs = [m] if kind == "child" else list(spec.descendant_segment_nodes(m))
            for d in inputs:
                for s in sels:
                    nxt.extend(apply_selector(s, d))
        nodes = nxt
    return nodes


def view(matches):
    return [(m.obj, m.parts, m.path) for m in matches]


def same_values(a, b):
    """Sequence equality that does not identify True with 1 (JSON values)."""
    return len(a) == len(b) and all(_same(x, y) for x, y in zip(a, b))


def _same(x, y):
    if type(x) is not type(y):
        if isinstance(x, (int, float)) and isinstance(y, (int, float)) and not isinstance(x, bool) and not isinstance(y, bool):
            return x == y
        return False
    if isinstance(x, list):
        return same_values(x, y)
    if isinstance(x, dict):
        return list(x.keys()) == list(y.keys()) and all(_same(x[k], y[k]) for k in x)
    return x == y


def universe(tier, seed, n_queries_quick=400, n_queries_thorough=6000, n_docs_extra=20):
    rng = random.Random(seed * 7919 + 13)
    docs = list(DOCS) + gen_docs(rng, n_docs_extra if tier == "quick" else n_docs_extra * 5)
    queries = [[("child", [s])] for s in all_single_selectors()]
    queries += [[("desc", [s])] for s in all_single_selectors()[::3]]
    n = n_queries_quick if tier == "quick" else n_queries_thorough
    while len(queries) < n:
        queries.append(gen_query(rng))
    return docs, queries


class Recorder:
    """Collects failures (deduplicated by key), samples and counts for one monitor run."""

    def __init__(self, bound, max_failures=40):
        self.bound = bound
        self.evaluations = 0
        self.nontrivial = set()
        self.failures = []
        self.keys = set()
        self.samples = []
        self.max_failures = max_failures

    def ok(self, nontrivial_key=None, sample=None):
        self.evaluations += 1
        if nontrivial_key is not None:
            self.nontrivial.add(nontrivial_key)
        if sample is not None and len(self.samples) < 4:
            self.samples.append(sample)

    def fail(self, key, what, replay, finding=None):
        self.evaluations += 1
        k = finding or key
        if k in self.keys or len(self.failures) >= self.max_failures:
            return
        self.keys.add(k)
        self.failures.append({"key": key, "what": what, "replay": replay, "finding": finding})

    def result(self, exhaustive=False):
        return {
            "bound": self.bound,
            "evaluations": self.evaluations,
            "distinct_nontrivial": len(self.nontrivial),
            "failures": self.failures,
            "samples": self.samples,
            "exhaustive": exhaustive,
        }


# ---------------------------------------------------------------- a mixed pool of query texts (standard + filters + extensions + compound)

EXTENSION_QUERIES = [
    "$.a", "a", "$['a']", "$[a]", "b[0]", "$.*", "$..a", "$..[0]", "$[~]", "$.c1[~]", "$..[~]", "$.a.~", "^[?@.a]", "^[?@[0] == 1]",
    "$[?# == 0]", "$[?# == 'a']", "$.b[?# > 0]", "$[?@ in [1, 2, 'a']]", "$[?'a' in @]", "$[?@ contains 1]", "$[?@.a contains 'b']",
    "$[?@.a =~ /a.*/]", "$[?@ =~ /A/i]", "$[?@ <> 1]", "$[?@.a and @.b]", "$[?@.a or @.b]", "$[?not @.a]", "$[?@.a == undefined]",
    "$[?@.a != missing]", "$[?@.a == nil]", "$[?@.a == none]", "$[?@.a == None]", "$[?@.b == True]", "$[?@.b == False]", "$[?@.a == Null]",
    "$[?@.a == _.x]", "$[?_.x]", "$.a[?@.b[?@ == _.x]]", "$[?@.a == $.a]", "$[?length(@) > 1]", "$[?count(@.*) == 2]", "$[?match(@.a, 'a.*')]",
    "$[?search(@.b, 'b')]", "$[?value(@..a) == 1]", "$[?typeof(@) == 'number']", "$[?isinstance(@, 'string')]", "$[?is(@.a, 'null')]",
]
COMPOUND_QUERIES = [
    "$.a | $.b", "$.b[*] & $.b[0:2]", "$.b[*] | $.b[*]", "$..a | $..b | $.c1", "$.b[*] & $.b[*] & $.b[1:]", "$[*] & $[0:2] | $[-1]",
    "$.a[*] & $.b[*] & $.c[*]", "$.a[*] | $.b[*] & $.c[*]", "$.c[*] & $.b[*] & $.a[*]", "$.a[*] & $.b[*] | $.c[*] & $.b[*]", "$[0] | $[1] & $[1]", "$.a[*] & $.b[*]", "$.x | $.a[*].b[*]", "$.a | ^[?@.a]", "^[?@.b] | $.b", "$.c | $.b | ^[?@.c]",
]
COMPOUND_DOCS = [
    {"a": [1, 2, 3], "b": [3, 2, 1], "c": [2, 3, 4]},
    {"a": [1, 2, 3], "b": [2, 3, 4], "c": [3, 4, 5]},
    [1, 2, 3, 2, 1],
    # operands whose later intersections are weaker than the earlier ones (order and binding matter)
    {"a": [1, 2, 3], "b": [1, 2], "c": [1, 2, 3]},
    {"a": [3, 1], "b": [1], "c": [3, 1]},
    {"a": [1, 2], "b": [3, 4], "c": [4, 2]},
    {"a": [1], "b": [3], "c": [5]},
]


def mixed_queries(tier, seed):
    from monitors import filters as FL

    rng = random.Random(seed * 31 + 5)
    docs, queries = universe(tier, seed, n_queries_quick=120, n_queries_thorough=1500)
    texts = [render_query(q, rng.choice((0, 1, 2, 5))) for q in queries]
    fdocs, exprs = FL.filter_universe(tier, seed, n_quick=150, n_thorough=2000)
    texts += [FL.render_filter_query(e, rng.choice((0, 16, 32))) for e in exprs]
    texts += EXTENSION_QUERIES + COMPOUND_QUERIES
    seen, out = set(), []
    for t in texts:
        if t not in seen:
            seen.add(t)
            out.append(t)
    all_docs = [d for d in docs if isinstance(d, (list, dict))][:24] + fdocs + COMPOUND_DOCS
    return all_docs, out

"""C01 bounded stand-in + engine cross-check: surface syntax -> selectors -> nodelist.

For every query AST of the universe, in every rendering (dot / bracket, quote style, blanks), and
every document: `jsonpath.findall(text, doc)` must equal the RFC 9535 nodelist computed by the
reference evaluator (specs/rfc9535.py).  Bounded: labelled so in evidence, never counted as proved."""
from __future__ import annotations

import jsonpath
from monitors import universe as U


def classify(text, doc, got, want):
    return None


def run(tier, seed):
    docs, queries = U.universe(tier, seed)
    rec = U.Recorder(
        f"{len(queries)} query ASTs (<=3 segments x <=3 selectors; names {len(U.NAMES)} incl. quotes/escapes/non-ASCII; "
        f"{len(U.INDEXES)} indices; {len(U.SLICES)} slices) x up to 10 renderings x {len(docs)} documents"
    )
    env = jsonpath.JSONPathEnvironment()
    for q in queries:
        refs = None
        for text in U.renderings(q):
            try:
                path = env.compile(text)
            except Exception as e:  # noqa: BLE001
                rec.fail(
                    f"compile:{text}",
                    f"RFC 9535 query {text!r} (AST {q!r}) does not compile: {type(e).__name__}: {e}",
                    f"import jsonpath\ntry:\n    jsonpath.compile({text!r})\nexcept Exception as e:\n    print('does not compile:', type(e).__name__, e); sys.exit(1)\nprint('compiles'); sys.exit(0)",
                )
                continue
            if refs is None:
                refs = [[m.obj for m in U.reference(q, d)] for d in docs]
            for d, want in zip(docs, refs):
                try:
                    got = path.findall(d)
                except Exception as e:  # noqa: BLE001
                    got = f"raises {type(e).__name__}: {e}"
                if isinstance(got, list) and U.same_values(got, want):
                    rec.ok((text, len(want)) if want else None, {"query": text, "document": d, "result": want} if want else None)
                else:
                    rec.fail(
                        f"{text}|{d!r}",
                        f"findall({text!r}, {d!r}) -> {got!r} but RFC 9535 nodelist is {want!r}",
                        f"import jsonpath\ngot = jsonpath.findall({text!r}, {d!r})\nwant = {want!r}\nprint('got ', got); print('want', want)\nsys.exit(0 if repr(got) == repr(want) else 1)",
                        classify(text, d, got, want),
                    )
    return rec.result()

"""C10 (closing step, bounded): for every query the default environment accepts, str(query)
compiles, is a fixed point, and returns the same matches on every document of the universe."""
from __future__ import annotations

import jsonpath
from monitors import filters as FL
from monitors import universe as U

EXTRA = [
    "$[?!(@.a == 1)]", "$[?!(@.a && @.b)]", "$[?!(@.a || @.b)]", "$[?(@.a || @.b) && @.c1]", "$[?@.a || @.b && @.c1]", "$[?(@.a || @.b) == true]", "$[?!@.a == false]",
    "^[?@.a]", "^[?@[0].a == 1]", "^", "$", "$[?@.a == 1.0]", "$[?@.a == 1e16]", "$[?@.a == 1.0e16]", "$[?@.a == 1E+2]", "$[?@.a == 0.5]", "$[?@.a == -1.5e-7]", "$[?@.a == 1e-7]", "$[?@.a == 1.5e400]", "$[?@.a == -1.5e400]", "$[?@.a < 1.5e400]",
    "$[?@.a =~ /a.*/i]", "$[?@.a =~ /A/ms]", "$[?@.a =~ /a\\/b/]", "$[?@.a == 'it''s']" if False else "$[?@.a == 'it\\'s']", '$[?@.a == "say \\"hi\\""]', "$['say \"hi\"']", "$[?@.a == '6\"']",
    "$[?@.a == 'a\\\\']", "$['\\n']", "$['\\u00e9']", "$[0::-1]", "$[0:2:-1]", "$[::-1]", "$[1:]", "$[:1]", "$[::]", "$[0:0]", "$.a | $.b", "$.a & $.b | $.c1", "$[?@.a in [1, 'a', true, null]]",
    "$[?@.n == count(^[*])]", "$[?count(^[*]) == 1]", "$[?^[0].a == @.a]", "$.b[?@.a == ^[0].a]", "^[?@.a == count(^[*])]", "$[?@.a == 0.0000002]", "$[?@.a == 1.5e-7]", "$[?@.a == 123456789012345680.0]",
    "$[?@.a in ['x\\u0001y', 'z']]", "$[?@.a in ['it\\'s', \"q\\\"\"]]", "$[?(@.a || @.b) && @.c1]", "$[?(@.a || @.b) && (@.c1 || @.a)]", "$[?@.c1 && (@.a || @.b)]", "$[?((@.a || @.b) && @.c1) || @.b]",
    # comparisons and negations as operands of comparisons (accepted by the default environment)
    "$[?(@.a == 2) == true]", "$[?(!(@.a == 1)) == true]", "$[?true == (@.a == 2)]", "$[?(@.a < 2) != (@.b < 2)]", "$[?(@.a == 2) == true && @.b]", "$[?(!@.a) == false]",
    "$[?(!(@.a == 1 || @.b)) == true]", "$[?!(!(@.a == 1))]", "$[?((@.a == 1) == true) == false]", "$[?(@.a in [1, 2]) == (@.b contains 1)]", "$[?(@.a =~ /a.*/) == false]", "$[?(@.a <> 1) == true]",
    "$[?@.a == undefined]", "$[?@.a == nil]", "$[?# == 'a']", "$[?@.a == _.x]", "$[~]", "$.a[~]", "$.~", "$..~", "$[?count(@.*) > 1 && match(@.a, 'a')]", "$[?length(value(@..a)) == 1]",
]


# negation scope and grouping around EVERY comparison operator, standard and extension
_OPS = [("==", "1"), ("!=", "1"), ("<", "2"), ("<=", "1"), (">", "0"), (">=", "1"), ("in", "[1, 2, 'a']"), ("contains", "1"), ("<>", "1"), ("=~", "/a.*/")]
NEGATIONS = (
    [f"$[?!(@.a {op} {rhs})]" for op, rhs in _OPS]
    + [f"$[?!(@.a {op} {rhs}) && @.b]" for op, rhs in _OPS]
    + [f"$[?@.b || !(@.a {op} {rhs})]" for op, rhs in _OPS]
    + [f"$[?!(@.a {op} {rhs} || @.b)]" for op, rhs in _OPS]
    + [f"$[?!(!(@.a {op} {rhs}))]" for op, rhs in _OPS]
)
_NEG_DOCS = [[{"a": 1, "b": 1}, {"a": 2}, {"a": "a", "b": 0}, {"a": "abc"}, {"a": [1, 2]}, {"a": 0, "b": None}, {"b": 1}, {"a": None}, {"a": False}]]


# regular-expression literals: inline flags (global and scoped to a group) combined with every flag letter -
# "regular-expression flags" must survive printing whatever the pattern itself says about flags
_RE_PATTERNS = ["(?i:ab)c", "(?i)abc", "(?s:a.)b", "(?m:^b$)", "(?s)a.b", "(?m)^b$", "a.b", "^b$", "(?i:a)bc", "(?:ab)c", "(?i:ab)(?s:.)c", "[a-c]+", "(?a:\\w)bc", "(?is:a.)C"]
_RE_FLAGS = ["", "i", "s", "m", "a", "is", "im", "ms", "ims"]
REGEXES = [f"$[?@ =~ /{pat}/{fl}]" for pat in _RE_PATTERNS for fl in _RE_FLAGS] + [f"$[?!(@ =~ /{pat}/{fl})]" for pat in _RE_PATTERNS[:4] for fl in ("i", "s", "m")]
_RE_DOCS = [["abc", "ABC", "ABc", "abC", "aBC", "a\nb", "A\nB", "a\nB", "b", "x\nb\ny", "x\nB", "a\nc", "ab\nc", "AB\nC", "ébc", "a.b", 1, None]]


def run(tier, seed):
    docs, texts = U.mixed_queries(tier, seed)
    texts = texts + EXTRA + NEGATIONS + REGEXES
    docs = docs + _NEG_DOCS + _RE_DOCS
    rec = U.Recorder(f"{len(texts)} accepted queries (standard, filters with every grouping, literals, regex flags, extensions, compound) x {len(docs)} documents")
    env = jsonpath.JSONPathEnvironment()
    fc = {"x": 2}
    for t in texts:
        try:
            p = env.compile(t)
        except Exception:  # noqa: BLE001
            continue
        try:
            s = str(p)
        except Exception as e:  # noqa: BLE001
            rec.fail(f"str:{t}", f"str(compile({t!r})) raised {type(e).__name__}: {e}", "sys.exit(2)")
            continue

        def fail(kind, what, t=t, s=s):
            rec.fail(f"{kind}:{t}", f"{kind}: compile({t!r}) prints as {s!r}: {what}",
                     f"import jsonpath\np = jsonpath.compile({t!r}); s = str(p)\nprint(s)\ntry:\n    p2 = jsonpath.compile(s)\nexcept Exception as e:\n    print('does not recompile:', type(e).__name__, e); sys.exit(1)\n"
                     f"docs = {docs[:8]!r}\nbad = [d for d in docs if repr(p.findall(d, filter_context={fc!r})) != repr(p2.findall(d, filter_context={fc!r}))]\nprint('fixed point:', str(p2) == s, 'differing documents:', bad[:1])\nsys.exit(0 if str(p2) == s and not bad else 1)",
                     classify(t, s))

        try:
            p2 = env.compile(s)
        except Exception as e:  # noqa: BLE001
            fail("recompile", f"which does not compile: {type(e).__name__}: {e}")
            continue
        if str(p2) != s:
            fail("fixed-point", f"which prints as {str(p2)!r}")
            continue
        bad = None
        for d in docs:
            try:
                a = p.findall(d, filter_context=fc)
            except Exception as e:  # noqa: BLE001
                a = f"raises {type(e).__name__}"
            try:
                b = p2.findall(d, filter_context=fc)
            except Exception as e:  # noqa: BLE001
                b = f"raises {type(e).__name__}"
            if repr(a) != repr(b):
                bad = (d, a, b)
                break
        if bad:
            fail("equivalence", f"on {bad[0]!r} the original selects {bad[1]!r}, the recompiled text {bad[2]!r}")
        else:
            rec.ok(("rt", t) if s != t else None, {"query": t, "text": s} if s != t else None)
    return rec.result()


def classify(t, s):
    return None

"""C19 cross-check (bounded): projection (select) against an independent reference built from the
relative matches: flat = selected values in selection order; relative / root = the selected locations
inserted into an empty tree, array levels compacted to the selected indices in ascending order;
non-container matches and empty selections produce nothing; the document is not modified."""
from __future__ import annotations

import copy
import itertools

import jsonpath
from jsonpath.fluent_api import Projection
from monitors import universe as U

DOCS = [
    {"users": [{"name": "a", "age": 1, "tags": ["x", "y"], "addr": {"city": "c", "zip": 0}}, {"name": "b", "age": 0, "tags": [], "addr": {"city": "", "zip": None}}, {"name": "c"}]},
    [{"a": [10, 20, 30], "b": {"c": [1, [2, 3]], "d": False}}, {"a": [], "b": {}}, "str", 5, [1, 2, 3]],
    {"a": [{"x": 3, "y": 4}, {"x": 5}, {"x": 3, "y": 4}], "101": {"205": 1, "7": 2}, "c": [5, [2, 3]], "z": 0},
    {"rows": {"0": {"v": 1}, "1": {"v": 0}}, "e": {}, "f": [], "n": None},
    {"s": '{"a": [1, 2], "name": "x"}', "t": "[10, 20, 30]", "u": "plain", "w": "{not json", "a": [1]},
    # arrays long enough for indices with different numbers of digits (rank order is not text order)
    {"a": {"foo": list(range(100, 112)), "bar": 7}, "long": [{"x": i} for i in range(12)]},
]
MATCH_QUERIES = ["$.long", "$.*", "$", "$.users[*]", "$[*]", "$.users[0]", "$.a", "$.a[*]", "$..b", "$.rows", "$.rows.*", "$.users[*].tags", "$.z", "$.n", "$..*"]
REL = ["name", "age", "tags", "tags[0]", "tags[1]", "addr.city", "addr.zip", "addr", "a", "a[0]", "a[2]", "a[1]", "a[0, 2]", "a[1:]", "b.c", "b.c[1][0]", "b.d", "b", "*", "..x", "x", "y",
       "foo[2]", "foo[10]", "foo[8:12]", "foo[1, 11]", "long[2].x", "long[10].x", "long[9:11]", "[9]", "[10].x", "[2, 10].x",
       "[0]", "[1]", "[2].x", "[0].y", "[*].x", "c", "c[1]", "c[1][0]", "['101']", "['101']['205']", "['0']", "['0'].v", "v", "nope", "z"]


class Missing:
    pass


def insert(tree, parts, value):
    node = tree
    for p in parts[:-1]:
        node = node.setdefault(p, {}) if isinstance(node, dict) else node
    if isinstance(node, dict):
        node[parts[-1]] = ("leaf", value)


def compact(node):
    if isinstance(node, tuple) and node and node[0] == "leaf":
        return node[1]
    if isinstance(node, dict):
        if node and all(isinstance(k, int) for k in node):
            return [compact(node[k]) for k in sorted(node)]
        return {k: compact(v) for k, v in node.items()}
    return node


def overlapping(sel):
    """Some selected location is a proper prefix of another (ancestor and descendant both selected)."""
    ps = [p for p, _ in sel]
    return any(a != b and len(a) < len(b) and b[: len(a)] == a for a in ps for b in ps)


def out_of_order(sel):
    """Indices of one array selected in non-ascending order."""
    seen = {}
    for parts, _ in sel:
        for i, p in enumerate(parts):
            if isinstance(p, int):
                key = parts[:i]
                if key in seen and p < seen[key]:
                    return True
                seen[key] = max(p, seen.get(key, p))
    return False


def reference(match, exprs, style):
    if not isinstance(match.obj, (list, dict)):
        return Missing
    sel = []
    for e in exprs:
        for rm in jsonpath.finditer(e, match.obj):
            sel.append((rm.parts, rm.obj))
    if style == "flat":
        return [v for _, v in sel] or Missing
    tree = {}
    for parts, v in sel:
        if not parts:
            return None  # selecting the match itself: unspecified by the statement
        insert(tree, (match.parts if style == "root" else ()) + parts, v)
    out = compact(tree)
    return out if out else Missing


def classify(sel):
    if overlapping(sel):
        return "C19-overlapping-selections"
    return None


def run(tier, seed):
    combos = [(r,) for r in REL] + list(itertools.combinations(REL, 2))[:: (5 if tier == "quick" else 1)] + list(itertools.permutations(REL[:12], 2))[:: (3 if tier == "quick" else 1)]
    rec = U.Recorder(f"{len(DOCS)} documents x {len(MATCH_QUERIES)} match queries x {len(combos)} lists of 1-2 relative queries (names, indices, slices, wildcards, nested, overlapping, integer-looking names) x 3 projection styles")
    styles = {"relative": Projection.RELATIVE, "root": Projection.ROOT, "flat": Projection.FLAT}
    for d in DOCS:
        for mq in MATCH_QUERIES:
            ms = list(jsonpath.finditer(mq, d))
            if not ms:
                continue
            for exprs in combos:
                for sname, style in styles.items():
                    before = copy.deepcopy(d)
                    try:
                        got = list(jsonpath.query(mq, d).select(*exprs, projection=style))
                    except Exception as e:  # noqa: BLE001
                        got = f"raises {type(e).__name__}: {e}"
                    modified = repr(d) != repr(before)
                    sel_all = []
                    want = []
                    skip = False
                    for m in jsonpath.finditer(mq, before):
                        r = reference(m, exprs, sname)
                        if r is None:
                            skip = True
                        if isinstance(m.obj, (list, dict)):
                            for e in exprs:
                                sel_all += [(m.parts + rm.parts, rm.obj) for rm in jsonpath.finditer(e, m.obj)]
                        if r is not Missing and r:
                            want.append(r)
                    if modified:
                        d.clear() if isinstance(d, dict) else d.__setitem__(slice(None), [])
                        d.update(copy.deepcopy(before)) if isinstance(d, dict) else d.extend(copy.deepcopy(before))
                    if skip:
                        continue
                    per_match_sel = []
                    ok = isinstance(got, list) and U.same_values(got, want) and not modified
                    if ok:
                        rec.ok((mq, exprs, sname) if want else None, {"match": mq, "select": list(exprs), "projection": sname, "result": want} if want and len(exprs) > 1 and len(rec.samples) < 4 else None)
                    else:
                        # classification needs the selections relative to one match
                        finding = None
                        for m in jsonpath.finditer(mq, before):
                            if isinstance(m.obj, (list, dict)):
                                sel = [(rm.parts, rm.obj) for e in exprs for rm in jsonpath.finditer(e, m.obj)]
                                finding = finding or classify(sel)
                        what = "the document was modified; " if modified else ""
                        rec.fail(f"{mq}|{exprs}|{sname}|{before!r}", f"{what}query({mq!r}).select{exprs!r} ({sname}) on {before!r} -> {got!r}, expected {want!r}",
                                 f"import copy, jsonpath\nfrom jsonpath.fluent_api import Projection\nd = {before!r}\nb = copy.deepcopy(d)\ngot = list(jsonpath.query({mq!r}, d).select(*{exprs!r}, projection=Projection.{style.name}))\nprint(got); print({want!r}); print('document modified:', d != b)\nsys.exit(0 if repr(got) == repr({want!r}) and d == b else 1)",
                                 finding)
    return rec.result()

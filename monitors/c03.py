"""C03 bounded part: every match location identifies exactly that node.

For each match of each universe query on each document:
  * the path is a syntactically valid RFC 9535 2.7 normalized path,
  * the path evaluated as a query returns exactly that one value - the same object,
  * walking the parts, resolving the derived JSON Pointer, and resolving that pointer's string form
    parsed again all give the same object,
  * the parent is the match one step shorter,
  * two matches have equal paths iff they denote the same node (same parts)."""
from __future__ import annotations

import re

import jsonpath
from jsonpath import JSONPointer
from monitors import universe as U

# RFC 9535 2.7: normalized-path = root-identifier *(normal-index-segment)
NORMAL = re.compile(
    r"\$(?:\[(?:0|[1-9][0-9]*)\]|\['(?:[\x20-\x26\x28-\x5B\x5D-\U0010FFFF]|\\[btnfr'\\]|\\u00(?:0[0-7]|0b|0e|0f|1[0-9a-f]))*'\])*"
)


def walk(doc, parts):
    v = doc
    for p in parts:
        v = v[p]
    return v


def run(tier, seed):
    docs, queries = U.universe(tier, seed, n_queries_quick=450, n_queries_thorough=5000)
    rec = U.Recorder(f"every match of {len(queries)} queries x {len(docs)} documents (names incl. quotes, backslashes, control and non-ASCII characters)")
    env = jsonpath.JSONPathEnvironment()
    for q in queries:
        text = U.render_query(q, 0)
        try:
            path = env.compile(text)
        except Exception:  # noqa: BLE001  (C01 reports compile failures)
            continue
        for d in docs:
            if not isinstance(d, (list, dict)):
                continue
            try:
                ms = list(path.finditer(d))
            except Exception:  # noqa: BLE001
                continue
            by_path = {}
            for m in ms:
                ctxt = f"match of {text!r} on {d!r} with path {m.path!r} parts {m.parts!r}"

                def fail(kind, what, finding=None, m=m):
                    rec.fail(
                        f"{kind}:{m.path}",
                        f"{kind}: {what} ({ctxt})",
                        "import jsonpath\n"
                        f"doc = {d!r}\nms = list(jsonpath.finditer({text!r}, doc))\n"
                        f"m = [x for x in ms if x.parts == {m.parts!r}][0]\n"
                        "print('path', m.path, 'parts', m.parts)\n"
                        "try:\n    back = jsonpath.findall(m.path, doc)\nexcept Exception as e:\n    print('path does not re-query:', type(e).__name__, e); sys.exit(1)\n"
                        "ok = len(back) == 1 and back[0] is m.obj and m.pointer().resolve(doc) is m.obj and jsonpath.JSONPointer(str(m.pointer())).resolve(doc) is m.obj\n"
                        "print('identifies the node:', ok); sys.exit(0 if ok else 1)",
                        finding,
                    )

                if not NORMAL.fullmatch(m.path):
                    fail("normalized-path-syntax", "path is not a valid RFC 9535 2.7 normalized path")
                    continue
                try:
                    back = env.findall(m.path, d)
                except Exception as e:  # noqa: BLE001
                    fail("path-requery", f"normalized path does not compile/evaluate: {type(e).__name__}: {e}")
                    continue
                if not (len(back) == 1 and back[0] is m.obj):
                    fail("path-requery", f"normalized path selects {back!r}, not exactly the matched object")
                    continue
                try:
                    if walk(d, m.parts) is not m.obj:
                        fail("parts", "walking the parts does not reach the matched object")
                        continue
                    ptr = m.pointer()
                    if ptr.parts != m.parts or ptr.resolve(d) is not m.obj:
                        fail("pointer", "the derived JSON Pointer does not resolve to the matched object")
                        continue
                    if "\\" not in str(ptr) and JSONPointer(str(ptr)).resolve(d) is not m.obj:
                        fail("pointer-text", f"pointer text {str(ptr)!r} parsed again resolves elsewhere")
                        continue
                    if "\\" in str(ptr) and JSONPointer(str(ptr), unicode_escape=False).resolve(d) is not m.obj:
                        fail("pointer-text", f"pointer text {str(ptr)!r} parsed again (no escape decoding) resolves elsewhere")
                        continue
                except Exception as e:  # noqa: BLE001
                    fail("pointer", f"{type(e).__name__}: {e}")
                    continue
                if m.parts:
                    if m.parent is None or m.parent.parts != m.parts[:-1] or walk(d, m.parent.parts) is not m.parent.obj:
                        fail("parent", "parent is not the match one step shorter")
                        continue
                elif m.parent is not None:
                    fail("parent", "root match has a parent")
                    continue
                prev = by_path.setdefault(m.path, m.parts)
                if prev != m.parts:
                    fail("path-injective", f"two different nodes {prev!r} / {m.parts!r} share the path")
                    continue
                rec.ok((m.path, len(m.parts)) if len(m.parts) > 1 else None, {"query": text, "path": m.path, "parts": list(m.parts)} if len(m.parts) > 1 else None)
            # different parts must give different paths
            inv = {}
            for m in ms:
                if inv.setdefault(m.parts, m.path) != m.path:
                    rec.fail(f"path-function:{m.parts}", f"one node has two paths ({text!r} on {d!r})", "sys.exit(2)")
    return rec.result()

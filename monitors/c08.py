"""C08 engine cross-check (bounded): async find-all / find-iter == sync, same values, order, paths,
parts; same kind of error.  Also with containers that supply an async item getter, and with three
evaluations awaited concurrently on one event loop."""
from __future__ import annotations

import asyncio
from collections.abc import Mapping, Sequence

import jsonpath
from monitors import universe as U


class AList(Sequence):
    def __init__(self, items):
        self._items = [wrap(x) for x in items]

    def __getitem__(self, i):
        return self._items[i]

    async def __getitem_async__(self, i):
        await asyncio.sleep(0)
        return self._items[i]

    def __len__(self):
        return len(self._items)


class ADict(Mapping):
    def __init__(self, d):
        self._d = {k: wrap(v) for k, v in d.items()}

    def __getitem__(self, k):
        return self._d[k]

    async def __getitem_async__(self, k):
        await asyncio.sleep(0)
        return self._d[k]

    def __iter__(self):
        return iter(self._d)

    def __len__(self):
        return len(self._d)


def wrap(v):
    if isinstance(v, list):
        return AList(v)
    if isinstance(v, dict):
        return ADict(v)
    return v


def unwrap(v):
    if isinstance(v, AList):
        return [unwrap(x) for x in v._items]
    if isinstance(v, ADict):
        return {k: unwrap(x) for k, x in v._d.items()}
    return v


def outcome_sync(path, d, fc):
    try:
        return ("ok", [(unwrap(m.obj), m.parts, m.path) for m in path.finditer(d, filter_context=fc)], [unwrap(x) for x in path.findall(d, filter_context=fc)])
    except Exception as e:  # noqa: BLE001
        return ("raises", type(e).__name__)


async def outcome_async(path, d, fc):
    try:
        it = await path.finditer_async(d, filter_context=fc)
        ms = [(unwrap(m.obj), m.parts, m.path) async for m in it]
        vals = [unwrap(x) for x in await path.findall_async(d, filter_context=fc)]
        return ("ok", ms, vals)
    except Exception as e:  # noqa: BLE001
        return ("raises", type(e).__name__)


def run(tier, seed):
    docs, texts = U.mixed_queries(tier, seed)
    rec = U.Recorder(f"{len(texts)} queries (standard, filters, extensions, compound) x {len(docs)} documents, plain and with async item getters; 3 concurrent evaluations")
    env = jsonpath.JSONPathEnvironment()
    compiled = []
    for t in texts:
        try:
            compiled.append((t, env.compile(t)))
        except Exception:  # noqa: BLE001
            pass
    fc = {"x": 2}

    async def main():
        for t, p in compiled:
            for n, d in enumerate(docs):
                s = outcome_sync(p, d, fc)
                a = await outcome_async(p, d, fc)
                if repr(s) != repr(a):
                    rec.fail(f"{t}|{n}", f"{t!r} on {d!r}: sync -> {s!r} but async -> {a!r}",
                             f"import asyncio, jsonpath\np = jsonpath.compile({t!r})\nd = {d!r}\ns = p.findall(d, filter_context={fc!r})\na = asyncio.run(p.findall_async(d, filter_context={fc!r}))\nprint('sync ', s); print('async', a); sys.exit(0 if repr(s) == repr(a) else 1)")
                else:
                    rec.ok((t, n) if s[0] == "ok" and s[1] else None, {"query": t, "document": d, "values": s[2]} if s[0] == "ok" and s[2] else None)
                if n % 5 == 0:
                    w = wrap(d)
                    s2 = outcome_sync(p, w, fc)
                    a2 = await outcome_async(p, w, fc)
                    if repr(s2) != repr(a2):
                        rec.fail(f"agetter:{t}|{n}", f"{t!r} on {d!r} with async item getters: sync -> {s2!r} but async -> {a2!r}", "sys.exit(2)")
                    else:
                        rec.ok()
            # three evaluations on one loop
            ds = docs[:3]
            want = [outcome_sync(p, d, fc) for d in ds]
            got = await asyncio.gather(*[outcome_async(p, d, fc) for d in ds])
            if repr(want) != repr(list(got)):
                rec.fail(f"gather:{t}", f"{t!r}: three concurrent async evaluations differ from the sync results", "sys.exit(2)")
            else:
                rec.ok()
            # the same with item getters that give the loop a chance to switch tasks between items: the
            # evaluations really interleave (shared state of the compiled query would show here)
            ws = [wrap(d) for d in ds]
            want = [outcome_sync(p, w, fc) for w in ws]
            got = await asyncio.gather(*[outcome_async(p, w, fc) for w in ws])
            if repr(want) != repr(list(got)):
                rec.fail(f"gather-interleaved:{t}", f"{t!r}: concurrent async evaluations on {len(ws)} documents with suspending item getters differ from the sync results: {list(got)!r} vs {want!r}"[:900], "sys.exit(2)")
            else:
                rec.ok()

        # one compiled query, several documents that differ in what `$` refers to inside the filter,
        # evaluated concurrently with suspending item getters: per-evaluation state (the cache of
        # root-dependent sub-queries) must not leak from one evaluation into another
        shared = [
            ("$.items[?@.v == $.target]", [{"target": k, "items": [{"v": 1}, {"v": 2}, {"v": 1}, {"v": 2}]} for k in (1, 2, 3)]),
            ("$.items[?@.v > $.lo && @.v < $.hi]", [{"lo": a, "hi": b, "items": [{"v": n} for n in range(6)]} for a, b in ((0, 3), (2, 6), (4, 5))]),
            ("$.xs[?count($.ys[?@ == 1]) == @]", [{"ys": ys, "xs": [0, 1, 2, 3]} for ys in ([1], [1, 1], [2], [1, 2, 1, 1])]),
            ("$[?@.k == $[0].k]", [[{"k": a}, {"k": b}, {"k": a}] for a, b in ((1, 2), (2, 1), (3, 3))]),
        ]
        for t, ds in shared:
            p = jsonpath.compile(t)
            for rounds in range(2):  # a second round reuses whatever the first one left in the compiled query
                ws = [wrap(d) for d in ds]
                want = [outcome_sync(p, d, None) for d in ds]
                got = list(await asyncio.gather(*[outcome_async(p, w, None) for w in ws]))
                if repr(want) != repr(got):
                    rec.fail(f"shared-state:{t}:{rounds}", f"{t!r} evaluated concurrently on {ds!r} (suspending item getters): async results {got!r}, sync results one by one {want!r}"[:1200],
                             "sys.exit(2)")
                else:
                    rec.ok(("shared", t, rounds))

    asyncio.run(main())
    return rec.result()

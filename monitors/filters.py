"""Filter-expression universe (RFC 9535 2.3.5 / 2.4): expression ASTs, their renderings, an
independent well-typedness classifier (2.4.3) and a reference evaluator built from the spec
functions of specs/rfc9535_filter.py.

expr    = ("cmp", op, operand, operand) | ("and", e, e) | ("or", e, e) | ("not", e) | ("paren", e)
        | ("test", query) | ("fn", name, [arg, ...])            # fn as a test (LogicalType result)
operand = ("lit", value) | ("q", root, query_ast) | ("fn", name, [arg, ...])
arg     = operand | expr (LogicalType parameters are not used by the five standard functions)
root    = "@" | "$"
"""
from __future__ import annotations

import json
import random

import specs.rfc9535_filter as F
from jsonpath.filter import UNDEFINED
from jsonpath.match import NodeList
from monitors import universe as U

CMP_OPS = ["==", "!=", "<", "<=", ">", ">="]
LITERALS = [1, 0, -1, 2, 1.0, 0.5, "a", "abc", "1", "", True, False, None]
SING = [
    [("child", [("name", "a")])],
    [("child", [("name", "b")])],
    [("child", [("index", 0)])],
    [("child", [("name", "a")]), ("child", [("name", "b")])],
    [],
]
NONSING = [
    [("child", [("wild",)])],
    [("desc", [("name", "a")])],
    [("child", [("slice", None, 2, None)])],
    [("child", [("name", "a"), ("name", "b")])],
]
FUNCS = {  # name -> (param types, return type)
    "length": (["value"], "value"),
    "count": (["nodes"], "value"),
    "value": (["nodes"], "value"),
    "match": (["value", "value"], "logical"),
    "search": (["value", "value"], "logical"),
}
PATTERNS = ["a", "a.*", "[ab]+", "1", ".", "abc"]


def is_singular(q):
    return all(kind == "child" and len(sels) == 1 and sels[0][0] in ("name", "index") for kind, sels in q)


# ---------------------------------------------------------------- generation

def gen_query_operand(rng, singular=None):
    root = rng.choice(["@", "@", "$"])
    if singular is None:
        singular = rng.random() < 0.75
    q = rng.choice(SING if singular else NONSING)
    return ("q", root, q)


def gen_value_operand(rng, depth=1):
    r = rng.random()
    if r < 0.35:
        return ("lit", rng.choice(LITERALS))
    if r < 0.8 or depth == 0:
        return gen_query_operand(rng, True)
    name = rng.choice(["length", "count", "value"])
    if name == "length":
        return ("fn", name, [gen_value_operand(rng, 0)])
    return ("fn", name, [gen_query_operand(rng, rng.random() < 0.5)])


def gen_expr(rng, depth=2):
    r = rng.random()
    if depth == 0 or r < 0.4:
        k = rng.random()
        if k < 0.55:
            return ("cmp", rng.choice(CMP_OPS), gen_value_operand(rng), gen_value_operand(rng))
        if k < 0.85:
            return ("test", gen_query_operand(rng))
        name = rng.choice(["match", "search"])
        return ("fn", name, [gen_query_operand(rng, True), ("lit", rng.choice(PATTERNS))])
    if r < 0.6:
        return ("and", gen_expr(rng, depth - 1), gen_expr(rng, depth - 1))
    if r < 0.8:
        return ("or", gen_expr(rng, depth - 1), gen_expr(rng, depth - 1))
    if r < 0.93:
        return ("not", gen_expr(rng, depth - 1))
    return ("paren", gen_expr(rng, depth - 1))


def gen_illtyped(rng):
    """Expressions that break exactly one rule of RFC 9535 2.4.3 / 2.3.5."""
    k = rng.randrange(9)
    good = gen_expr(rng, 1)
    if k == 0:  # non-singular query as comparison operand
        return ("cmp", rng.choice(CMP_OPS), gen_query_operand(rng, False), gen_value_operand(rng))
    if k == 1:  # LogicalType function result compared
        return ("cmp", "==", ("fn", "match", [gen_query_operand(rng, True), ("lit", "a")]), ("lit", True))
    if k == 2:  # ValueType function result used as a test, at some position
        bad = ("fn", rng.choice(["length", "count", "value"]), [gen_query_operand(rng, True)])
        pos = rng.randrange(4)
        if pos == 0:
            return bad
        if pos == 1:
            return ("and", good, bad)
        if pos == 2:
            return ("or", bad, good)
        return ("not", bad)
    if k == 3:  # wrong number of arguments
        return ("cmp", "==", ("fn", "length", [gen_query_operand(rng, True), ("lit", 1)]), ("lit", 1))
    if k == 4:  # unknown function
        return ("cmp", "==", ("fn", "nosuchfn", [gen_query_operand(rng, True)]), ("lit", 1))
    if k == 5:  # literal that is not compared
        pos = rng.randrange(3)
        lit = ("lit", rng.choice(LITERALS))
        if pos == 0:
            return ("bare", lit)
        if pos == 1:
            return ("and", good, ("bare", lit))
        return ("or", ("bare", lit), good)
    if k == 6:  # non-singular query where a ValueType argument is needed
        return ("cmp", "==", ("fn", "length", [gen_query_operand(rng, False)]), ("lit", 1))
    if k == 7:  # literal where NodesType is needed
        return ("cmp", "==", ("fn", "count", [("lit", 1)]), ("lit", 1))
    return ("cmp", "==", ("fn", "length", []), ("lit", 1))


# ---------------------------------------------------------------- typing (RFC 9535 2.4.3), independent of the library

def operand_type(o):
    """'value' | 'nodes' | 'logical' | None (ill-typed)"""
    if o[0] == "lit":
        return "value"
    if o[0] == "q":
        return "singular" if is_singular(o[2]) else "nodes"
    if o[0] == "fn":
        return fn_type(o)
    return None


def fn_type(f):
    name, args = f[1], f[2]
    if name not in FUNCS:
        return None
    params, ret = FUNCS[name]
    if len(params) != len(args):
        return None
    for p, a in zip(params, args):
        t = operand_type(a)
        if t is None:
            return None
        if p == "value" and t not in ("value", "singular"):
            return None
        if p == "nodes" and t not in ("nodes", "singular"):
            return None
    return ret


def well_typed(e):
    k = e[0]
    if k == "cmp":
        return all(operand_type(o) in ("value", "singular") for o in (e[2], e[3]))
    if k in ("and", "or"):
        return well_typed(e[1]) and well_typed(e[2])
    if k in ("not", "paren"):
        return well_typed(e[1])
    if k == "test":
        return operand_type(e[1]) in ("singular", "nodes")
    if k == "fn":
        return fn_type(e) == "logical"
    if k == "bare":
        return False
    return False


# ---------------------------------------------------------------- rendering

def render_literal(v, q="'"):
    if isinstance(v, str):
        return U.quote(v, q)
    return json.dumps(v)


def render_operand(o, style=0):
    if o[0] == "lit":
        return render_literal(o[1], '"' if style & 2 else "'")
    if o[0] == "q":
        return U.render_query(o[2], style & 3, root=o[1])
    if o[0] == "fn":
        return o[1] + "(" + ", ".join(render_arg(a, style) for a in o[2]) + ")"
    raise ValueError(o)


def render_arg(a, style):
    if a[0] in ("lit", "q", "fn"):
        return render_operand(a, style)
    return render_expr(a, style)


PREC = {"or": 1, "and": 2, "not": 3}


def render_expr(e, style=0, parent=0):
    """style bit 16: redundant parentheses around every sub-expression; bit 32: word operators."""
    k = e[0]
    sp = " " if not style & 64 else ""
    if k == "cmp":
        s = render_operand(e[2], style) + sp + e[1] + sp + render_operand(e[3], style)
        return "(" + s + ")" if style & 16 else s
    if k in ("and", "or"):
        op = ("&&" if k == "and" else "||") if not style & 32 else k
        s = render_expr(e[1], style, PREC[k]) + " " + op + " " + render_expr(e[2], style, PREC[k] + 0)
        # right operand of the same operator needs no parentheses for the value, but grouping is kept
        if PREC[k] < parent or style & 16:
            return "(" + s + ")"
        return s
    if k == "not":
        inner = e[1]
        body = render_expr(inner, style, PREC["not"])
        if inner[0] in ("cmp", "and", "or") and not body.startswith("("):
            body = "(" + body + ")"
        return ("!" if not style & 32 else "not ") + body
    if k == "paren":
        return "(" + render_expr(e[1], style, 0) + ")"
    if k == "test":
        return render_operand(e[1], style)
    if k == "fn":
        return render_operand(e, style)
    if k == "bare":
        return render_operand(e[1], style)
    raise ValueError(e)


def render_filter_query(e, style=0):
    return "$[?" + ("" if style & 128 else "") + render_expr(e, style) + "]"


# ---------------------------------------------------------------- reference evaluation

def nodes_of(o, current, root):
    start = current if o[1] == "@" else root
    ms = U.reference(o[2], start)
    return NodeList(ms)


def value_of(o, current, root):
    """The operand as the evaluator passes it to a comparison: value, Nothing or nodelist."""
    if o[0] == "lit":
        return o[1]
    if o[0] == "q":
        return nodes_of(o, current, root)
    if o[0] == "fn":
        return call_fn(o, current, root)
    raise ValueError(o)


def call_fn(f, current, root):
    name, args = f[1], f[2]
    vals = [value_of(a, current, root) for a in args]
    if name == "length":
        return F.fn_length(F.value_argument(vals[0]))
    if name == "count":
        return F.fn_count(vals[0])
    if name == "value":
        return F.fn_value(vals[0])
    if name == "match":
        return F.fn_match(F.value_argument(vals[0]), F.value_argument(vals[1]))
    if name == "search":
        return F.fn_search(F.value_argument(vals[0]), F.value_argument(vals[1]))
    raise ValueError(name)


def truth(e, current, root):
    k = e[0]
    if k == "cmp":
        l = F.singular(value_of(e[2], current, root))
        r = F.singular(value_of(e[3], current, root))
        return bool(F.rfc_compare(l, e[1], r))
    if k == "and":
        return truth(e[1], current, root) and truth(e[2], current, root)
    if k == "or":
        return truth(e[1], current, root) or truth(e[2], current, root)
    if k == "not":
        return not truth(e[1], current, root)
    if k == "paren":
        return truth(e[1], current, root)
    if k == "test":
        return len(nodes_of(e[1], current, root)) > 0
    if k == "fn":
        return bool(call_fn(e, current, root))
    raise ValueError(e)


def reference_filter(e, doc):
    """Values selected by `$[?e]` on doc (RFC 9535 2.3.5.2)."""
    if isinstance(doc, list):
        return [v for v in doc if truth(e, v, doc)]
    if isinstance(doc, dict):
        return [v for v in doc.values() if truth(e, v, doc)]
    return []


FILTER_DOCS = [
    [{"a": 1, "b": 2}, {"a": 2, "b": 1}, {"a": "a", "b": "abc"}, {"a": None}, {"b": True}, {}, {"a": [1, 2], "b": {"a": 1}}],
    [0, False, "", None, 1, True, "a", [], {}, [0], {"a": 0}],
    {"x": {"a": 1.0, "b": [1]}, "y": {"a": True, "b": 1}, "z": {"a": "1", "b": "a"}, "a": 1, "b": "abc"},
    [[1, 2], [2, 1], ["a", "b"], [True, 1], [None], []],
    {"a": 1, "b": [{"a": 1}, {"a": 2}], "c": "abc"},
    [1, 1.0, True, "1", [1], [True], [1.0], {"a": 1}, {"a": True}],
    [{"a": {"b": 1}, "b": 1}, {"a": {"b": 2}, "b": 2}, {"a": {"b": None}, "b": None}, {"a": {}, "b": 0}],
    [{"a": [1], "b": [True]}, {"a": {"k": 0}, "b": {"k": False}}, {"a": [1], "b": [1.0]}, {"a": [[1]], "b": [[1]]}],
]


def filter_universe(tier, seed, n_quick=500, n_thorough=8000):
    rng = random.Random(seed * 104729 + 7)
    n = n_quick if tier == "quick" else n_thorough
    exprs = []
    # systematic part: every comparison operator over literal / singular-query operand pairs
    for op in CMP_OPS:
        for l in (("q", "@", SING[0]), ("q", "@", SING[4]), ("lit", 1), ("lit", "a")):
            for r in (("lit", 1), ("lit", True), ("lit", "a"), ("lit", None), ("q", "$", SING[0]), ("q", "@", SING[1])):
                exprs.append(("cmp", op, l, r))
    for q in SING + NONSING:
        exprs.append(("test", ("q", "@", q)))
        exprs.append(("not", ("test", ("q", "@", q))))
    while len(exprs) < n:
        e = gen_expr(rng, 2 if tier == "quick" else 3)
        if well_typed(e):
            exprs.append(e)
    return FILTER_DOCS, exprs

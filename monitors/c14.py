"""C14 bounded part (string level): parse / print round trip for RFC 6901 pointer strings without
leading blanks or backslashes, equality == equality of reference tokens however constructed,
from_parts spelling, and the navigation laws of join / slash / parent / is_relative_to.
Exhaustive over token sequences of length <= 3 with tokens of length <= 2 over a critical alphabet."""
from __future__ import annotations

import itertools

from jsonpath import JSONPointer
from monitors import pointers as PU
from monitors import universe as U

ALPHABET = ["~", "/", "0", "1", "-", "+", " ", "#", "é", "a"]
DOC = {"a": {"": 1, "0": [10, 11, {"~": 2, "/": 3, "~1": 4}], " ": {"a": 5}}, "": [["x"]], "0": "zero", "-0": "minus zero", "~01": {"a/b": 6}}


def tokens(maxlen):
    out = [""]
    for n in range(1, maxlen + 1):
        out += ["".join(t) for t in itertools.product(ALPHABET, repeat=n)]
    return out


def run(tier, seed):
    toks = tokens(2)
    seqs = [()] + [(t,) for t in toks] + [(a, b) for a in toks[::3] for b in toks[::4]] + [(a, b, c) for a in toks[::11] for b in toks[::13] for c in toks[::7]]
    if tier == "thorough":
        seqs += [(a, b) for a in toks for b in toks]
    rec = U.Recorder(f"{len(seqs)} token sequences (length <= 3, tokens of length <= 2 over {ALPHABET!r} and the empty token) x escape decoding on/off; join / slash laws for every (pointer, token) pair of a sub-universe")
    for seq in seqs:
        s = PU.spell(seq)
        if s != s.lstrip() or "\\" in s:
            continue
        for ue in (True, False):
            try:
                p = JSONPointer(s, unicode_escape=ue)
                fp = JSONPointer.from_parts(list(seq), unicode_escape=ue)
                ok = str(p) == s and [str(x) for x in p.parts] == list(seq) and str(fp) == s and fp == p and hash(fp) == hash(p) and JSONPointer(str(fp), unicode_escape=ue) == fp
                if seq:
                    par = p.parent()
                    ok = ok and [str(x) for x in par.parts] == list(seq[:-1]) and p.is_relative_to(par) and not par.is_relative_to(p)
                else:
                    ok = ok and p.parent() == p and not p.is_relative_to(p)
                why = None if ok else f"str={str(p)!r} parts={p.parts!r} from_parts->{str(fp)!r} eq={fp == p}"
            except Exception as e:  # noqa: BLE001
                ok, why = False, f"{type(e).__name__}: {e}"
            if ok:
                rec.ok((s, ue) if len(seq) > 1 else None, {"tokens": list(seq), "text": s} if len(seq) > 1 else None)
            else:
                rec.fail(f"rt:{s}:{ue}", f"pointer text {s!r} (tokens {list(seq)!r}, unicode_escape={ue}): {why}",
                         f"from jsonpath import JSONPointer\np = JSONPointer({s!r}, unicode_escape={ue}); fp = JSONPointer.from_parts({list(seq)!r}, unicode_escape={ue})\nprint(str(p), p.parts, str(fp), fp == p)\nsys.exit(0 if str(p) == {s!r} and str(fp) == {s!r} and fp == p else 1)")
    # different token sequences are different pointers
    sample = seqs[:400]
    for a, b in itertools.combinations(sample[:120], 2):
        if any(("\\" in t) for t in a + b):
            continue
        pa, pb = JSONPointer.from_parts(list(a), unicode_escape=False), JSONPointer(PU.spell(b), unicode_escape=False)
        if (pa == pb) == (list(a) == list(b)):
            rec.ok()
        else:
            rec.fail(f"eq:{a}:{b}", f"from_parts({list(a)!r}) == JSONPointer({PU.spell(b)!r}) is {pa == pb}", "sys.exit(2)")
    # join / slash laws
    bases = [(), ("a",), ("a", "0"), ("",), ("a", "0", "2"), ("~01",)]
    for base, built in [(b, how) for b in bases for how in ("parsed", "from_parts")]:
        p = JSONPointer(PU.spell(base), unicode_escape=False) if built == "parsed" else JSONPointer.from_parts(list(base), unicode_escape=False)
        for t in toks:
            if "\\" in t or t != t.lstrip() or t.startswith("/"):
                continue
            esc = PU.rfc_escape(t)
            if esc.startswith("/"):
                continue
            for how in ("slash", "join"):
                try:
                    q = (p / esc) if how == "slash" else p.join(esc)
                    ok = [str(x) for x in q.parts] == list(base) + [t] and q.parent() == p and q.is_relative_to(p) and str(q) == PU.spell(base + (t,))
                    # resolve(p / t) == step(resolve(p), t)
                    try:
                        here = ("ok", p.resolve(DOC))
                    except Exception:  # noqa: BLE001
                        here = ("error",)
                    if here[0] == "ok":
                        try:
                            want = ("ok", JSONPointer(PU.spell((t,)), unicode_escape=False).resolve(here[1]))
                        except Exception:  # noqa: BLE001
                            want = ("error",)
                        try:
                            got = ("ok", q.resolve(DOC))
                        except Exception:  # noqa: BLE001
                            got = ("error",)
                        ok = ok and (got[0] == want[0]) and (got[0] == "error" or got[1] is want[1])
                    why = None if ok else f"parts {q.parts!r}, text {str(q)!r}"
                except Exception as e:  # noqa: BLE001
                    ok, why = False, f"{type(e).__name__}: {e}"
                if ok:
                    rec.ok((base, t, how, built))
                else:
                    rec.fail(f"{how}:{built}:{base}:{t}", f"JSONPointer({PU.spell(base)!r}) [{built}] {how} {esc!r}: {why}",
                             f"from jsonpath import JSONPointer\np = JSONPointer({PU.spell(base)!r}, unicode_escape=False)\nq = p / {esc!r} if {how == 'slash'} else p.join({esc!r})\nprint(q.parts, str(q)); sys.exit(0 if [str(x) for x in q.parts] == {list(base) + [t]!r} and q.parent() == p else 1)")
        # a joined part that starts with a slash replaces the pointer; join folds the slash operator
        for parts in (("/x",), ("bar", "/baz"), ("", ""), ("a", "b"), ("/x", "y")):
            want = p
            for part in parts:
                want = want / part
            got = p.join(*parts)
            exp_tokens = None
            if any(x.startswith("/") for x in parts):
                idx = max(i for i, x in enumerate(parts) if x.startswith("/"))
                exp_tokens = [y for x in (parts[idx][1:],) for y in x.split("/")] + [y for x in parts[idx + 1:] for y in x.split("/")]
            else:
                exp_tokens = list(base) + [y for x in parts for y in x.split("/")]
            if got == want and [str(x) for x in got.parts] == exp_tokens:
                rec.ok()
            else:
                rec.fail(f"join:{base}:{parts}", f"JSONPointer({PU.spell(base)!r}).join{parts!r} -> {str(got)!r}, folding / gives {str(want)!r}, expected tokens {exp_tokens!r}",
                         f"from jsonpath import JSONPointer\np = JSONPointer({PU.spell(base)!r}, unicode_escape=False)\nprint(str(p.join(*{parts!r}))); sys.exit(0 if [str(x) for x in p.join(*{parts!r}).parts] == {exp_tokens!r} else 1)")
    return rec.result(exhaustive=True)

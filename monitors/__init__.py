"""Bounded stand-ins and engine cross-checks: the spec functions executed against the real
functions over stated universes.  Labelled bounded in evidence, never counted as proved."""

MONITORS = {
    "C01": ["monitors.c01"],
    "C02": ["monitors.c02"],
    "C03": ["monitors.c03"],
    "C04": ["monitors.c04"],
    "C05": ["monitors.c05"],
    "C06": ["monitors.c06"],
    "C07": ["monitors.c07"],
    "C08": ["monitors.c08"],
    "C09": ["monitors.c09"],
    "C10": ["monitors.c10"],
    "C11": ["monitors.c11"],
    "C12": ["monitors.c12"],
    "C13": ["monitors.c13"],
    "C14": ["monitors.c14"],
    "C15": ["monitors.c15"],
    "C16": ["monitors.c16"],
    "C17": ["monitors.c17"],
    "C18": ["monitors.c18"],
    "C19": ["monitors.c19"],
    "C20": ["monitors.c20"],
}

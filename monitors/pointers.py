"""Shared pointer universes: documents with awkward member names, token strings."""
from __future__ import annotations

import itertools
import random

TOKEN_ALPHABET = ["~", "/", "0", "1", "-", "+", " ", "#", "é", "a", "\\", "_", "%"]
NAMES = ["", "a", "0", "1", "01", "-1", "-0", "+1", " 1", "1_0", "１", "~", "/", "~0", "~1", "a/b", "m~n", "#", "#0", "~a", "é", "😀", " ", "a b", "%41", "\\u0041", "a\\", "-", "1e2", "٣"]


def rfc_escape(tok):
    return tok.replace("~", "~0").replace("/", "~1")


def spell(parts):
    """RFC 6901 section 3/5: the pointer string for a list of reference tokens (member names as is,
    array indices in decimal)."""
    return "".join("/" + rfc_escape(str(p)) for p in parts)


def docs(tier, seed):
    rng = random.Random(seed + 99)
    out = [
        {n: i for i, n in enumerate(NAMES)},
        [0, 1, 2, [3, 4, {"a": 5, "0": 6, "-": 7}], {"": {"": 8}}, "str", 9.5, True, None, []],
        {"a": {"b": {"c": [1, 2, {"d": "e"}]}}, "": 0, " ": 1, "a/b": {"~": [10, 11]}, "m~n": {"/": 12, "~1": 13, "~01": 14}},
        {"foo": ["bar", "baz"], "": 0, "a/b": 1, "c%d": 2, "e^f": 3, "g|h": 4, "i\\j": 5, 'k"l': 6, " ": 7, "m~n": 8},
        {"1": "one", "01": "zero-one", "+1": "plus", " 1": "blank", "1_0": "under", "10": "ten", "-1": "minus", "-0": "minus zero", "0": "zero"},
        [[["x"]], {"0": [{"1": ["deep"]}]}],
        {"é": {"😀": ["u", {"٣": 1}]}, "１": 2},
    ]
    n = 12 if tier == "quick" else 80
    for _ in range(n):
        out.append(_gen(rng, 3))
    return out


def _gen(rng, depth):
    r = rng.random()
    if depth == 0 or r < 0.25:
        return rng.choice([None, True, 0, 1, "s", "", 1.5])
    if r < 0.55:
        return [_gen(rng, depth - 1) for _ in range(rng.randint(0, 3))]
    return {k: _gen(rng, depth - 1) for k in rng.sample(NAMES, rng.randint(0, 4))}


def locations(doc, prefix=()):
    """Every node of doc with its location parts (member names as str, indices as int)."""
    yield prefix, doc
    if isinstance(doc, dict):
        for k, v in doc.items():
            yield from locations(v, prefix + (k,))
    elif isinstance(doc, list):
        for i, v in enumerate(doc):
            yield from locations(v, prefix + (i,))


def token_strings(max_len):
    for n in range(max_len + 1):
        for tup in itertools.product(TOKEN_ALPHABET, repeat=n):
            yield "".join(tup)

"""C15 cross-check (bounded): operation lists of length <= 3 over the C05 universe through three
construction routes (document form, builder chain, the patch's own list-of-dicts output), printed
forms, effects, and reuse: applying never changes the patch or the caller's list; repeated application
to equal documents gives equal and mutually independent results; addne / addap against add."""
from __future__ import annotations

import copy
import io
import json
import random

from jsonpath import JSONPatch
from jsonpath import JSONPointer
from jsonpath.exceptions import JSONPatchError
from monitors import c05 as C5
from monitors import universe as U

OPS = ["add", "remove", "replace", "move", "copy", "test", "addne", "addap"]
VALUES = [1, "v", None, True, [], {}, [1, [2]], {"k": {"n": [1]}}]


def build(patch, op):
    n = op["op"]
    if n in ("add", "addne", "addap", "replace", "test"):
        return getattr(patch, n)(op["path"], copy.deepcopy(op["value"]))
    if n == "remove":
        return patch.remove(op["path"])
    return getattr(patch, n)(op["from"], op["path"])


def outcome(patch, doc):
    try:
        return ("ok", patch.apply(copy.deepcopy(doc)))
    except JSONPatchError as e:
        return ("error", type(e).__name__)
    except Exception as e:  # noqa: BLE001
        return ("escape", type(e).__name__)


def mutate_deep(v):
    """Modify every mutable container inside v in place."""
    if isinstance(v, list):
        for x in v:
            mutate_deep(x)
        v.append("MUTATED")
    elif isinstance(v, dict):
        for x in list(v.values()):
            mutate_deep(x)
        v["MUTATED"] = True


def run(tier, seed):
    rng = random.Random(seed * 17 + 5)
    n = 1500 if tier == "quick" else 40000
    docs = C5.DOCS
    rec = U.Recorder(f"{n} seeded operation lists of length 1-3 over 8 operations x {len(docs)} documents: 3 construction routes, printed dicts, effects, two applications, deep mutation of results; addne/addap vs add on every candidate path")
    for _ in range(n):
        d = rng.choice(docs)
        paths = C5.paths_for(d)
        ops = []
        for _ in range(rng.randint(1, 3)):
            k = rng.choice(OPS)
            if k in ("move", "copy"):
                ops.append({"op": k, "from": rng.choice(paths), "path": rng.choice(paths)})
            elif k == "remove":
                ops.append({"op": k, "path": rng.choice(paths)})
            else:
                ops.append({"op": k, "path": rng.choice(paths), "value": copy.deepcopy(rng.choice(VALUES))})
        # a value that is a container modified by a later operation
        if rng.random() < 0.3:
            ops = [{"op": "add", "path": "/zz", "value": []}, {"op": "add", "path": "/zz/-", "value": {"k": []}}, {"op": "add", "path": "/zz/0/k/-", "value": 1}] if isinstance(d, dict) else ops
        caller_list = copy.deepcopy(ops)
        frozen = json.dumps(caller_list, sort_keys=True)
        try:
            p_doc = JSONPatch(caller_list, unicode_escape=False)
            p_txt = JSONPatch(json.dumps(ops), unicode_escape=False)
            p_file = JSONPatch(io.StringIO(json.dumps(ops)), unicode_escape=False)
            p_bld = JSONPatch(unicode_escape=False)
            for op in ops:
                build(p_bld, op)
            p_again = JSONPatch(p_doc.asdicts(), unicode_escape=False)
            p_ptr = JSONPatch(unicode_escape=False)
            for op in ops:
                o2 = dict(op)
                o2["path"] = JSONPointer(op["path"], unicode_escape=False)
                if "from" in o2:
                    o2["from"] = JSONPointer(op["from"], unicode_escape=False)
                build(p_ptr, o2)
        except JSONPatchError:
            rec.ok()
            continue
        routes = {"document": p_doc, "text": p_txt, "file": p_file, "builder": p_bld, "asdicts": p_again, "builder+pointers": p_ptr}
        printed = {k: json.dumps(v.asdicts(), sort_keys=True) for k, v in routes.items()}
        want_print = json.dumps(ops, sort_keys=True)
        bad = None
        if any(v != want_print for v in printed.values()):
            bad = f"printed forms differ from the operations given: { {k: v for k, v in printed.items() if v != want_print} } (given {want_print})"
        else:
            outs = {k: outcome(v, d) for k, v in routes.items()}
            first = outs["document"]
            if any(repr(o) != repr(first) for o in outs.values()):
                bad = f"effects differ between construction routes: { {k: o for k, o in outs.items()} }"
            else:
                # reuse: second application, independence, patch unchanged
                r1 = outcome(p_doc, d)
                r2 = outcome(p_doc, d)
                if repr(r1) != repr(first) or repr(r2) != repr(first):
                    bad = f"repeated application differs: first {first!r}, then {r1!r}, {r2!r}"
                elif r1[0] == "ok":
                    snapshot = copy.deepcopy(r2[1])
                    mutate_deep(r1[1])
                    if repr(r2[1]) != repr(snapshot):
                        bad = "two results of the same patch share mutable state"
                    elif json.dumps(p_doc.asdicts(), sort_keys=True) != want_print:
                        bad = f"modifying a result changed the patch: {p_doc.asdicts()!r}"
                    else:
                        r3 = outcome(p_doc, d)
                        if repr(r3) != repr(first):
                            bad = f"after modifying an earlier result the patch gives {r3!r}, not {first!r}"
                if bad is None and json.dumps(caller_list, sort_keys=True) != frozen:
                    bad = "the caller's operation list was modified"
                if bad is None and json.dumps(p_doc.asdicts(), sort_keys=True) != want_print:
                    bad = f"applying changed the patch: {p_doc.asdicts()!r}"
        if bad is None:
            rec.ok((want_print,), {"operations": ops, "document": d} if len(ops) > 1 and len(rec.samples) < 4 else None)
        else:
            rec.fail(f"{want_print}|{d!r}", f"patch {ops!r} on {d!r}: {bad}",
                     f"import copy, json\nfrom jsonpath import JSONPatch\nops = {ops!r}\ndoc = {d!r}\np = JSONPatch(copy.deepcopy(ops), unicode_escape=False)\nprint(p.asdicts())\na = p.apply(copy.deepcopy(doc)); b = p.apply(copy.deepcopy(doc))\nprint(a, b, p.asdicts())\nsys.exit(0 if a == b and json.dumps(p.asdicts(), sort_keys=True) == json.dumps(ops, sort_keys=True) else 1)")
    # construction routes under the non-default decoding switches
    for ud, ue in ((True, False), (True, True), (False, True)):
        for path, doc in (("/a%20b/x", {"a b": {"x": 1}, "a%20b": {"x": 2}}), ("/a\\u0062", {"ab": 1, "a\\u0062": 2}), ("/%7E0", {"~": 1, "%7E0": 2, "~0": 3})):
            ops = [{"op": "replace", "path": path, "value": "new"}, {"op": "copy", "from": path, "path": "/copied"}]
            try:
                p_doc = JSONPatch(copy.deepcopy(ops), unicode_escape=ue, uri_decode=ud)
                p_bld = JSONPatch(unicode_escape=ue, uri_decode=ud).replace(path, "new").copy(path, "/copied")
                same = p_doc.asdicts() == p_bld.asdicts() and repr(outcome(p_doc, doc)) == repr(outcome(p_bld, doc))
                why = f"document form prints {p_doc.asdicts()!r} -> {outcome(p_doc, doc)!r}; builder prints {p_bld.asdicts()!r} -> {outcome(p_bld, doc)!r}"
            except Exception as e:  # noqa: BLE001
                same, why = False, f"{type(e).__name__}: {e}"
            if same:
                rec.ok((path, ud, ue))
            else:
                rec.fail(f"switches:{path}:{ud}:{ue}", f"JSONPatch(unicode_escape={ue}, uri_decode={ud}) with path {path!r} on {doc!r}: {why}", "sys.exit(2)")
    # addne / addap against add
    for d in docs:
        extra = []
        for parts, node in C5.PU.locations(d):
            if isinstance(node, dict):
                # '#name' / '~name' are ordinary member names for add / addne (the key-token
                # extension of the pointer only concerns resolution)
                extra += [C5.PU.spell(parts) + "/" + C5.PU.rfc_escape(pfx + k) for k in list(node)[:2] for pfx in ("#", "~") if isinstance(k, str) and k]
        for path in C5.paths_for(d) + extra:
            for v in (1, [2]):
                add = outcome(JSONPatch(unicode_escape=False).add(path, v), d)
                ne = outcome(JSONPatch(unicode_escape=False).addne(path, v), d)
                ap = outcome(JSONPatch(unicode_escape=False).addap(path, v), d)
                ptr = JSONPointer(path, unicode_escape=False)
                try:
                    parent, obj = C5.SpecPointer(path).resolve_parent(copy.deepcopy(d))
                    located = True
                except Exception:  # noqa: BLE001
                    located, parent, obj = False, None, None
                from jsonpath.pointer import UNDEFINED

                exp_ne = add
                if located and isinstance(parent, dict) and obj is not UNDEFINED and ptr.parts:
                    exp_ne = ("ok", copy.deepcopy(d))  # existing member left untouched
                exp_ap = add
                if located and isinstance(parent, list) and obj is UNDEFINED:
                    exp_ap = C5.ref_apply([{"op": "add", "path": path.rsplit("/", 1)[0] + "/-", "value": v}], d)
                if C5.negative_token([{"path": path}]):
                    # a negative index that RESOLVES is the recorded finding C05-negative-array-index; one that
                    # does not resolve is an index that cannot be resolved: addap appends, add / addne refuse
                    tok = int(path.rsplit("/", 1)[1])
                    if not (located and isinstance(parent, list) and -tok > len(parent)):
                        continue
                    exp_ap = C5.ref_apply([{"op": "add", "path": path.rsplit("/", 1)[0] + "/-", "value": v}], d)
                    if ap == exp_ap and add[0] == "error" and ne[0] == "error":
                        rec.ok(("negative-unresolvable", path))
                    else:
                        rec.fail(f"variant-negative:{path}|{d!r}", f"on {d!r} at {path!r} (an index that cannot be resolved): add -> {add!r}, addne -> {ne!r}, addap -> {ap!r}; expected add / addne to refuse and addap to append {exp_ap!r}", "sys.exit(2)")
                    continue
                okk = (repr(ne) == repr(exp_ne) or (ne[0] == exp_ne[0] == "error")) and (repr(ap) == repr(exp_ap) or (ap[0] == exp_ap[0] == "error"))
                if okk:
                    rec.ok((path, repr(d)[:20]) if ne != add or ap != add else None)
                else:
                    rec.fail(f"variant:{path}|{d!r}", f"on {d!r} at {path!r}: add -> {add!r}, addne -> {ne!r} (expected {exp_ne!r}), addap -> {ap!r} (expected {exp_ap!r})",
                             f"import copy\nfrom jsonpath import JSONPatch\nd = {d!r}\nfor n in ('add', 'addne', 'addap'):\n    try: print(n, getattr(JSONPatch(unicode_escape=False), n)({path!r}, {v!r}).apply(copy.deepcopy(d)))\n    except Exception as e: print(n, type(e).__name__, e)\nsys.exit(1)")
    return rec.result()

"""C05 bounded part (whole-document lifting + sequences): every single operation x every path in
{existing locations, one-step extensions, '-', index = len, len + 1, non-canonical, missing} x a
document universe, and seeded sequences of <= 4 operations, against the functional RFC 6902
reference (specs/rfc6902.py applied to a deep copy), compared as JSON values."""
from __future__ import annotations

import copy
import json
import random

import specs.rfc6901 as pspec
import specs.rfc6902 as jspec
from jsonpath import JSONPatch
from jsonpath import JSONPointer
from jsonpath.exceptions import JSONPatchError
from jsonpath.exceptions import JSONPatchTestFailure
from jsonpath.exceptions import JSONPointerError
from monitors import pointers as PU
from monitors import universe as U

VALUES = [0, 1, True, False, None, "v", [], {}, [1], {"k": [1]}, 1.0, 100, 1e2, [1.0], {"k": [1.0]}]
EXTRA_TOKENS = ["-", "0", "1", "2", "5", "01", "+1", "x", "", "1", "-1"]

DOCS = [
    {"a": 1, "b": [1, 2, 3], "c": {"d": [True, {"e": 1}]}},
    [1, [2, 3], {"a": [4]}],
    {"1": "one", "0": [0], "": {"": 1}, "a/b": 2, "m~n": 3},
    [],
    {},
    [[[]]],
    {"a": True, "b": 1, "c": [1], "d": [True], "e": {"k": 0}, "f": {"k": False}},
    {"x": {"y": {"z": [1, 2]}}},
    {"a": {"b": 1, "bc": {"d": 2}}, "ab": {"b": 4}},
    {"xs": [0, {"k": 1}, 2, 3, 4, 5, 6, 7, 8, 9, {"k": 10}]},
]


def paths_for(doc):
    out = []
    for parts, node in PU.locations(doc):
        out.append(PU.spell(parts))
        if isinstance(node, (list, dict)):
            for t in EXTRA_TOKENS:
                out.append(PU.spell(parts) + "/" + PU.rfc_escape(t))
            if isinstance(node, list):
                out.append(PU.spell(parts) + "/" + str(len(node)))
                out.append(PU.spell(parts) + "/" + str(len(node) + 1))
                out.append(PU.spell(parts) + "/-" + str(len(node) + 3))  # a negative index that cannot be resolved
        else:
            out.append(PU.spell(parts) + "/0")
    seen, res = set(), []
    for p in out:
        if p not in seen:
            seen.add(p)
            res.append(p)
    return res


class SpecPointer:
    """An RFC 6901 pointer for the reference: parsed and evaluated by the spec functions only
    (specs/rfc6901.py), nothing of the library's pointer code."""

    def __init__(self, text):
        if text and not text.startswith("/"):
            raise JSONPointerError("pointer must start with a slash or be empty")
        toks = [t.replace("~1", "/").replace("~0", "~") for t in text.split("/")[1:]]
        self.parts = tuple(pspec.index_token(t, -(2**53) + 1, 2**53 - 1) for t in toks)

    def resolve_parent(self, data):
        return pspec.resolve_parent(self.parts, data)

    def is_relative_to(self, other):
        return pspec.is_relative_to(self.parts, other.parts)


def _array_index_with_negatives(token, allow_end, length):
    """specs.rfc6902.array_index with the recorded finding built in: -k names the k-th element from the end."""
    if isinstance(token, int) and not isinstance(token, bool) and token < 0:
        if -token <= length:
            return token + length
        raise JSONPatchError("index out of range")
    return _ARRAY_INDEX(token, allow_end, length)


_ARRAY_INDEX = jspec.array_index


def ref_apply(ops, doc, python_eq_in_test=False, negative_index=False):
    if negative_index:
        jspec.array_index = _array_index_with_negatives
        try:
            return _ref_apply(ops, doc, python_eq_in_test)
        finally:
            jspec.array_index = _ARRAY_INDEX
    return _ref_apply(ops, doc, python_eq_in_test)


def _ref_apply(ops, doc, python_eq_in_test=False):
    """RFC 6902 reference: ('ok', document) | ('error', kind).

    python_eq_in_test=True is the reference *with the recorded finding C05-test-bool-number-equality
    built in* (test compares with Python ==); it is only used to classify a failure as that finding."""
    d = copy.deepcopy(doc)
    for op in ops:
        try:
            name = op["op"]
            path = SpecPointer(op["path"])
            if name == "add":
                d = jspec.op_add(path, copy.deepcopy(op["value"]), d)
            elif name == "remove":
                d = jspec.op_remove(path, d)
            elif name == "replace":
                d = jspec.op_replace(path, copy.deepcopy(op["value"]), d)
            elif name == "test":
                if python_eq_in_test:
                    _, obj = path.resolve_parent(d)
                    if not obj == op["value"]:
                        raise JSONPatchTestFailure
                else:
                    d = jspec.op_test(path, op["value"], d)
            elif name == "move":
                d = jspec.op_move(SpecPointer(op["from"]), path, d)
            elif name == "copy":
                d = jspec.op_copy(SpecPointer(op["from"]), path, d)
        except JSONPatchTestFailure:
            return ("error", "test")
        except (JSONPatchError, JSONPointerError):
            return ("error", "patch")
    return ("ok", d)


def real_apply(ops, doc):
    d = copy.deepcopy(doc)
    try:
        # every operation gets its own value object, as in a patch read from JSON text
        r = JSONPatch(json.loads(json.dumps(ops)), unicode_escape=False).apply(d)
        return ("ok", r)
    except JSONPatchTestFailure:
        return ("error", "test")
    except JSONPatchError:
        return ("error", "patch")
    except Exception as e:  # noqa: BLE001
        return ("escape", type(e).__name__)


def negative_token(ops):
    import re

    return any(re.search(r"/-[1-9][0-9]*$", op.get(k, "")) for op in ops for k in ("path", "from"))


def _same_outcome(a, b):
    return a[0] == b[0] and (U._same(a[1], b[1]) if a[0] == "ok" else a[1] == b[1])


def classify(ops, doc, got, want):
    """A disagreement is a recorded finding exactly when the reference reproduces the library's answer
    once that finding - and nothing else - is built into it: negative array indices accepted as Python
    indices (C05-negative-array-index), `test` comparing with Python == (C05-test-bool-number-equality)."""
    for neg, pyeq, fid in ((True, False, "C05-negative-array-index"), (False, True, "C05-test-bool-number-equality"), (True, True, "C05-negative-array-index")):
        try:
            alt = ref_apply(ops, doc, python_eq_in_test=pyeq, negative_index=neg)
        except Exception:  # noqa: BLE001
            continue
        if _same_outcome(alt, got) and not _same_outcome(alt, want):
            return fid
    return None


TEST_EQUALITY = [
    # (value in the document, value of the test operation, RFC 6902 4.6 says equal)
    (1, 1.0, True), (1.0, 1, True), (100, 1e2, True), ([1], [1.0], True), ({"k": [1]}, {"k": [1.0]}, True), (0, -0.0, True), (1, 2, False), ("1", 1, False), ([1, 2], [2, 1], False),
    ({"a": 1, "b": 2}, {"b": 2, "a": 1}, True), (None, None, True), (None, 0, False), ("", None, False), ([], {}, False), (1e2, 100.0, True), ([[1]], [[1.0]], True),
]


def check_test_equality(rec):
    for have, value, equal in TEST_EQUALITY:
        doc = {"x": copy.deepcopy(have), "l": [copy.deepcopy(have)]}
        for path in ("/x", "/l/0"):
            got = real_apply([{"op": "test", "path": path, "value": copy.deepcopy(value)}], doc)
            want = ("ok", doc) if equal else ("error", "test")
            if got[0] == want[0] and (got[0] == "error" and got[1] == want[1] or got[0] == "ok"):
                rec.ok(("test-eq", repr(have), repr(value)))
            else:
                rec.fail(f"test-eq:{have!r}:{value!r}", f"test {path} {value!r} on {doc!r} -> {got!r}; RFC 6902 4.6: the values are {'equal' if equal else 'not equal'}",
                         f"from jsonpath import JSONPatch\ntry:\n    print(JSONPatch([{{'op': 'test', 'path': {path!r}, 'value': {value!r}}}]).apply({doc!r}))\nexcept Exception as e:\n    print(type(e).__name__, e)\nsys.exit(2)")


def check(rec, ops, doc):
    want = ref_apply(ops, doc)
    got = real_apply(ops, doc)
    same = got[0] == want[0] and (U._same(got[1], want[1]) if got[0] == "ok" else got[1] == want[1])
    if same:
        rec.ok((repr(ops), got[0]) if got[0] == "ok" else None, {"patch": ops, "document": doc, "result": got[1]} if got[0] == "ok" and len(ops) > 1 else None)
    else:
        rec.fail(
            f"{ops!r}|{doc!r}",
            f"JSONPatch({ops!r}).apply({doc!r}) -> {got!r} but RFC 6902 gives {want!r}",
            f"import copy, jsonpath\nfrom monitors.c05 import ref_apply, real_apply\nops = {ops!r}\ndoc = {doc!r}\ngot, want = real_apply(ops, doc), ref_apply(ops, doc)\nprint('got ', got); print('want', want); sys.exit(0 if repr(got) == repr(want) else 1)",
            classify(ops, doc, got, want),
        )


def run(tier, seed):
    rng = random.Random(seed + 4242)
    docs = list(DOCS) + [d for d in PU.docs(tier, seed) if isinstance(d, (list, dict))][: (6 if tier == "quick" else 40)]
    rec = U.Recorder(f"single operations: 6 ops x all candidate paths of {len(docs)} documents x {len(VALUES)} values (sampled); sequences of <= 4 operations: {2000 if tier == 'quick' else 60000} seeded")
    check_test_equality(rec)
    for d in docs:
        paths = paths_for(d)
        for p in paths:
            for v in (VALUES if tier == "thorough" else VALUES[::3] + [VALUES[2]]):
                check(rec, [{"op": "add", "path": p, "value": v}], d)
                check(rec, [{"op": "replace", "path": p, "value": v}], d)
                check(rec, [{"op": "test", "path": p, "value": v}], d)
            check(rec, [{"op": "remove", "path": p}], d)
        some = paths if len(paths) <= 45 or tier == "thorough" else rng.sample(paths, 30)
        existing = [PU.spell(parts) for parts, _ in PU.locations(d)]
        for a in (existing if len(existing) <= 45 else rng.sample(existing, 30)):
            for b in some:
                check(rec, [{"op": "move", "from": a, "path": b}], d)
                check(rec, [{"op": "copy", "from": a, "path": b}], d)
    n = 2000 if tier == "quick" else 60000
    for _ in range(n):
        d = rng.choice(docs)
        paths = paths_for(d)
        ops = []
        for _ in range(rng.randint(2, 4)):
            k = rng.choice(["add", "remove", "replace", "move", "copy", "test", "add"])
            if k in ("move", "copy"):
                ops.append({"op": k, "from": rng.choice(paths), "path": rng.choice(paths)})
            elif k == "remove":
                ops.append({"op": k, "path": rng.choice(paths)})
            else:
                ops.append({"op": k, "path": rng.choice(paths), "value": rng.choice(VALUES)})
        check(rec, ops, d)
        # a copied value is independent of its source: mutate the copy afterwards
    return rec.result()

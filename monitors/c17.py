"""C17 bounded part: for assignments of distinct, non-overlapping spellings to the eight configurable
identifiers (multi-character spellings, one a prefix of another), a query written with those spellings
evaluates exactly as the default-spelling query does in the default environment, and its string form
recompiles in the renamed environment to an equivalent query."""
from __future__ import annotations

import itertools
import random

import jsonpath
from monitors import universe as U

IDS = ["root_token", "self_token", "key_token", "filter_context_token", "keys_selector_token", "fake_root_token", "union_token", "intersection_token"]
DEFAULT = {"root_token": "$", "self_token": "@", "key_token": "#", "filter_context_token": "_", "keys_selector_token": "~", "fake_root_token": "^", "union_token": "|", "intersection_token": "&"}
# ASCII punctuation only: a non-ASCII character is a valid shorthand member name (it would overlap
# with the name syntax, which the statement excludes)
POOL = ["$", "$$", "$$$", "@", "@@", "@#", "#", "##", "~", "~~", "^", "^^", "%", "%%", "`", "``", "|", "&", "&+", "+", "++", "+>", "{", "{}", "}", ";", ";;"]
TEMPLATES = [
    "{root}.a", "{root}..b", "{root}[{keys}]", "{root}.a.{keys}", "{root}..[{keys}]", "{fake}[?{self}.a]", "{fake}[?{self}.a == 1]", "{root}[?{self}.a == {root}.x]", "{root}.a[?{self}.b == {root}.x]",
    "{root}[?{key} == 0]", "{root}[?{key} == 'a']", "{root}[?{self} == {ctx}.x]", "{root}[?{ctx}.x]", "{root}.a[?{self}.b[?{self} == {ctx}.x]]", "{root}.a {union} {root}.b", "{root}.b[*] {inter} {root}.b[0:2]",
    "{root}.a {union} {root}.b {inter} {root}.b", "{root}.b[*] {inter} {root}.c[*] {union} {root}.a", "{root}[?{self}.a && {key} == 0 || {ctx}.x == 2]", "{root}[?count({self}.*) > 1]", "{root}[?{root}.x == {self}.a].a",
    "{root}.a[?{root}.a[?{self} == {root}.x]]", "{root}.x {union} {fake}[?{self}.x]", "{root}[?{self}.a == 1 && {root}.x == 2]", "{root}[?length({root}.b) == 3]", "{root}[?match({self}.s, 'a.*')]",
]
DOCS = [
    {"a": [{"b": 2}, {"b": 3}, 2], "b": [1, 2, 3], "c": [2, 3, 4], "x": 2},
    [{"a": 1, "s": "abc"}, {"a": 2, "s": "xbc"}, {"a": [2]}, 2],
    {"a": 1, "b": [2, [3]], "x": 1},
    {"a": {"b": [1, 2], "x": 2}, "x": 2, "b": [2, 2, 9]},
]


def overlaps(a, b):
    return a in b or b in a


def configs(rng, n):
    out = [dict(DEFAULT)]
    # prefix-related pairs, exhaustively over ordered pairs of identifiers for a few spellings
    for (i, j) in itertools.permutations(range(len(IDS)), 2):
        cfg = dict(DEFAULT)
        short, long_ = rng.choice([("`", "``"), ("%", "%%"), ("+", "++"), (";", ";;"), ("{", "{}")])
        cfg[IDS[i]], cfg[IDS[j]] = short, long_
        out.append(cfg)
    while len(out) < n:
        sp = rng.sample(POOL, len(IDS))
        out.append(dict(zip(IDS, sp)))
    return out


def valid(cfg):
    """Distinct spellings; a spelling may be a prefix of another (the statement allows it) but none may
    clash with fixed syntax of the grammar."""
    v = list(cfg.values())
    if len(set(v)) != len(v):
        return False
    fixed = [".", "..", "[", "]", "(", ")", "*", ",", ":", "?", "!", "&&", "||", "==", "!=", "<", "<=", ">", ">=", "=~", "'", '"', "/", "-"]
    for s in v:
        if any(s.startswith(f) or f.startswith(s) for f in fixed) or s in ("|", "&") and False:
            return False
        if any(ch.isalnum() or ch.isspace() for ch in s):
            return False
    # "non-overlapping": no spelling occurs inside another except as a proper prefix
    for a, b in itertools.permutations(v, 2):
        if a in b and not b.startswith(a):
            return False
    # a union/intersection spelling that is a prefix of (or has as prefix) && / || is excluded above
    return True


def make_env(cfg):
    return type("RenamedEnv", (jsonpath.JSONPathEnvironment,), dict(cfg))()


def run(tier, seed):
    rng = random.Random(seed * 9176 + 1)
    cfgs = [c for c in configs(rng, 220 if tier == "quick" else 3000) if valid(c)]
    rec = U.Recorder(f"{len(cfgs)} identifier configurations (spellings of 1-3 characters, all ordered prefix-related pairs) x {len(TEMPLATES)} query templates x {len(DOCS)} documents")
    default = jsonpath.JSONPathEnvironment()
    fc = {"x": 2}
    keymap = {"root": "root_token", "self": "self_token", "key": "key_token", "ctx": "filter_context_token", "keys": "keys_selector_token", "fake": "fake_root_token", "union": "union_token", "inter": "intersection_token"}
    base = {}
    for t in TEMPLATES:
        q = t.format(**{k: DEFAULT[v] for k, v in keymap.items()})
        p = default.compile(q)
        base[t] = [p.findall(d, filter_context=fc) for d in DOCS]
    for cfg in cfgs:
        try:
            env = make_env(cfg)
        except Exception as e:  # noqa: BLE001
            rec.fail(f"env:{cfg}", f"environment with {cfg!r} cannot be created: {type(e).__name__}: {e}", "sys.exit(2)")
            continue
        for t in TEMPLATES:
            q = t.format(**{k: cfg[v] for k, v in keymap.items()})

            def fail(kind, what, q=q, t=t, cfg=cfg):
                rec.fail(f"{kind}:{t}:{sorted(cfg.items())}", f"{kind}: with identifiers {cfg!r} the query {q!r}: {what}",
                         f"import jsonpath\nE = type('E', (jsonpath.JSONPathEnvironment,), {cfg!r})\ne = E()\ntry:\n    p = e.compile({q!r})\n    s = str(p); p2 = e.compile(s)\nexcept Exception as ex:\n    print(type(ex).__name__, ex); sys.exit(1)\n"
                         f"docs = {DOCS!r}\nwant = {base[t]!r}\ngot = [p.findall(d, filter_context={fc!r}) for d in docs]\ngot2 = [p2.findall(d, filter_context={fc!r}) for d in docs]\nprint(s); print(got); print(want)\nsys.exit(0 if repr(got) == repr(want) == repr(got2) else 1)")

            try:
                p = env.compile(q)
            except Exception as e:  # noqa: BLE001
                fail("compile", f"does not compile: {type(e).__name__}: {e}")
                continue
            got = []
            for d in DOCS:
                try:
                    got.append({"findall": p.findall(d, filter_context=fc), "finditer": [m.obj for m in p.finditer(d, filter_context=fc)]})
                except Exception as e:  # noqa: BLE001
                    got.append({"findall": f"raises {type(e).__name__}", "finditer": None})
            if any(repr(g["findall"]) != repr(w) or repr(g["finditer"]) != repr(w) for g, w in zip(got, base[t])):
                fail("evaluate", f"evaluates to {got!r}, the default-spelling query gives {base[t]!r}")
                continue
            try:
                s = str(p)
                p2 = env.compile(s)
                again = [p2.findall(d, filter_context=fc) for d in DOCS]
                if repr(again) != repr(base[t]) or str(p2) != s:
                    fail("string-form", f"prints as {s!r}, which recompiles to {str(p2)!r} and evaluates to {again!r} (expected {base[t]!r})")
                    continue
            except Exception as e:  # noqa: BLE001
                fail("string-form", f"prints as {s!r}, which does not recompile: {type(e).__name__}: {e}")
                continue
            rec.ok((t, tuple(sorted(cfg.items()))) if cfg != DEFAULT else None, {"identifiers": cfg, "query": q, "string_form": s} if cfg != DEFAULT and len(rec.samples) < 4 else None)
    return rec.result()

"""C04 bounded part: the RFC 6901 spelling of every node's location resolves to that very node
(escape decoding on for backslash-free pointers, off for all); every one-token mutation of a
location either resolves per RFC 6901 section 4 (reference: specs/rfc6901.walk) or raises a pointer
resolution error / returns the default; `exists` agrees with `resolve`."""
from __future__ import annotations

import specs.rfc6901 as pspec
from jsonpath import JSONPointer
from jsonpath.exceptions import JSONPointerResolutionError
from monitors import pointers as PU
from monitors import universe as U

SENTINEL = object()
BAD_TOKENS = ["-", "01", "+1", " 1", "1_0", "１", "٣", "1e2", "0x1", "99", "nope", "", "1.0", "-0", "００"]
EXTENSION = ("#", "~")


def is_extension(tok):
    return isinstance(tok, str) and (tok.startswith(EXTENSION) or tok.lstrip() != tok)


def reference(doc, tokens):
    """RFC 6901 section 4 on string tokens (documented negative-index extension excluded by the caller)."""
    v = doc
    for t in tokens:
        if isinstance(v, dict):
            if t not in v:
                raise KeyError(t)
            v = v[t]
        elif isinstance(v, list):
            import re

            if not re.fullmatch(r"0|[1-9][0-9]*", t):
                raise IndexError(t)
            i = int(t)
            if i >= len(v):
                raise IndexError(t)
            v = v[i]
        else:
            raise TypeError(t)
    return v


def history_check(rec):
    """What a pointer text means does not depend on which pointers were built before, nor with which decoding
    switches (a cache keyed by the text alone would show here)."""
    doc = {"y%42": "raw", "yB": "decoded", "a\\u0062": "raw-u", "ab": "decoded-u", "a b": 1, "a%20b": 2}
    cases = [("/y%42", {"uri_decode": True}, "decoded"), ("/y%42", {}, "raw"), ("/y%42", {"uri_decode": True}, "decoded"), ("/a%20b", {}, 2), ("/a%20b", {"uri_decode": True}, 1), ("/a%20b", {}, 2),
             ("/a\\u0062", {}, "decoded-u"), ("/a\\u0062", {"unicode_escape": False}, "raw-u"), ("/a\\u0062", {}, "decoded-u")]
    for text, kw, want in cases:
        try:
            got = JSONPointer(text, **kw).resolve(doc)
        except Exception as e:  # noqa: BLE001
            got = f"raises {type(e).__name__}: {e}"
        if got == want:
            rec.ok(("history", text, tuple(sorted(kw.items()))))
        else:
            rec.fail(f"history:{text}:{sorted(kw.items())}", f"JSONPointer({text!r}, **{kw!r}).resolve({doc!r}) -> {got!r} after other pointers were built with other switches; expected {want!r}", "sys.exit(2)")


def run(tier, seed):
    docs = PU.docs(tier, seed)
    rec = U.Recorder(f"every location of {len(docs)} documents (names from {len(PU.NAMES)} awkward strings) + {len(BAD_TOKENS)} one-token mutations of each location; escape decoding on/off")
    history_check(rec)
    for d in docs:
        for parts, node in PU.locations(d):
            text = PU.spell(parts)
            tokens = [str(p) for p in parts]
            for ue in (True, False):
                if ue and "\\" in text:
                    continue
                if any(is_extension(t) or t.startswith("-") and t != "-" and t[1:].isdigit() for t in tokens) and any(False for _ in ()):
                    pass
                try:
                    got = JSONPointer(text, unicode_escape=ue).resolve(d)
                    ok = got is node
                except Exception as e:  # noqa: BLE001
                    got, ok = f"raises {type(e).__name__}: {e}", False
                if ok and not ue:
                    # the module-level entry point with its DEFAULT switches (no percent decoding) is the same resolution
                    import jsonpath.pointer as _pm

                    try:
                        via = _pm.resolve(text, d) if "\\" not in text else _pm.resolve(text, d, unicode_escape=False)
                        ok2 = via is node
                    except Exception as e:  # noqa: BLE001
                        via, ok2 = f"raises {type(e).__name__}: {e}", False
                    if not ok2:
                        rec.fail(f"module-resolve:{text}", f"jsonpath.pointer.resolve({text!r}, doc) -> {via!r}, JSONPointer({text!r}).resolve(doc) -> the node at {parts!r} of {d!r}",
                                 f"import jsonpath.pointer as pm\nfrom jsonpath import JSONPointer\ndoc = {d!r}\nprint(pm.resolve({text!r}, doc), JSONPointer({text!r}).resolve(doc)); sys.exit(2)")
                        continue
                if ok:
                    rec.ok((text, ue) if len(parts) > 1 else None, {"pointer": text, "unicode_escape": ue} if len(parts) > 1 else None)
                else:
                    rec.fail(f"spell:{text}:{ue}", f"JSONPointer({text!r}, unicode_escape={ue}).resolve(doc) -> {got!r}, not the node at {parts!r} of {d!r}",
                             f"from jsonpath import JSONPointer\ndoc = {d!r}\nnode = doc\nfor p in {parts!r}:\n    node = node[p]\ntry:\n    got = JSONPointer({text!r}, unicode_escape={ue}).resolve(doc)\nexcept Exception as e:\n    print('raises', type(e).__name__, e); sys.exit(1)\nprint(got); sys.exit(0 if got is node else 1)")
            # one-token mutations
            if len(parts) > 2:
                continue
            for bad in BAD_TOKENS:
                toks = tokens + [bad]
                if is_extension(bad):
                    continue
                mtext = "".join("/" + PU.rfc_escape(t) for t in toks)
                try:
                    want = ("ok", reference(d, toks))
                except (KeyError, IndexError, TypeError):
                    want = ("error",)
                p = JSONPointer(mtext, unicode_escape=False)
                try:
                    got = ("ok", p.resolve(d))
                except JSONPointerResolutionError:
                    got = ("error",)
                except Exception as e:  # noqa: BLE001
                    got = ("escape", type(e).__name__)
                try:
                    ex = p.exists(d)
                    dflt = p.resolve(d, default=SENTINEL)
                except Exception as e:  # noqa: BLE001
                    ex, dflt = f"raises {type(e).__name__}", None
                good = (got[0] == want[0]) and (got[0] == "error" or got[1] is want[1]) and ex == (got[0] == "ok") and ((dflt is SENTINEL) == (got[0] == "error"))
                if good:
                    rec.ok((mtext, got[0]) if got[0] == "error" else None)
                else:
                    rec.fail(f"mut:{mtext}|{type(node).__name__}", f"JSONPointer({mtext!r}).resolve({d!r}) -> {got!r}, exists -> {ex!r}; RFC 6901 section 4 says {want!r}",
                             f"from jsonpath import JSONPointer\nfrom jsonpath.exceptions import JSONPointerResolutionError\ndoc = {d!r}\np = JSONPointer({mtext!r}, unicode_escape=False)\ntry:\n    print('resolves to', p.resolve(doc)); r = 'ok'\nexcept JSONPointerResolutionError as e:\n    print('resolution error', e); r = 'error'\nprint('RFC 6901:', {want[0]!r}); sys.exit(0 if r == {want[0]!r} else 1)")
    return rec.result()
